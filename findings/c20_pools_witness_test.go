package pool

// Witnesses for the (fixed) pool defects of C20: each test prints
// WITNESS-REPRODUCED when the defect still shows on the real code.

import (
	"context"
	"fmt"
	"testing"

	"github.com/protolambda/zrnt/eth2/beacon/altair"
	"github.com/protolambda/zrnt/eth2/beacon/common"
	"github.com/protolambda/zrnt/eth2/beacon/phase0"
	"github.com/protolambda/zrnt/eth2/configs"
)

func zzTry(name string, f func()) {
	defer func() {
		if r := recover(); r != nil {
			fmt.Printf("WITNESS-REPRODUCED: %s: panic: %v\n", name, r)
		}
	}()
	f()
	fmt.Printf("WITNESS-GONE: %s\n", name)
}

// bitlist of n bits with the given bits set (SSZ form with delimiter)
func zzBits(n int, set ...int) phase0.AttestationBits {
	b := make([]byte, n/8+1)
	for _, i := range set {
		b[i/8] |= 1 << (uint(i) % 8)
	}
	b[n/8] |= 1 << (uint(n) % 8)
	return b
}

func TestZZWitnessAggregateOnFreshPool(t *testing.T) {
	zzTry("aggregate-fresh-pool", func() {
		ap := NewAttestationPool(configs.Mainnet)
		att := &phase0.Attestation{AggregationBits: zzBits(4, 0, 2)}
		_ = ap.AddAttestation(context.Background(), att, common.CommitteeIndices{10, 11, 12, 13})
	})
}

func TestZZWitnessSearchIndividualOnly(t *testing.T) {
	zzTry("search-individual-only", func() {
		ap := NewAttestationPool(configs.Mainnet)
		att := &phase0.Attestation{AggregationBits: zzBits(4, 1)}
		if err := ap.AddAttestation(context.Background(), att, common.CommitteeIndices{10, 11, 12, 13}); err != nil {
			panic(err)
		}
		_ = ap.Search()
	})
}

func TestZZWitnessSyncPoolFresh(t *testing.T) {
	zzTry("sync-message-fresh-pool", func() {
		sp := NewSyncCommitteePool(configs.Mainnet)
		_ = sp.AddSyncCommitteeMessage(context.Background(), &altair.SyncCommitteeMessage{Slot: 0, ValidatorIndex: 3})
	})
	zzTry("sync-contribution-fresh-pool", func() {
		sp := NewSyncCommitteePool(configs.Mainnet)
		_ = sp.AddSyncCommitteeContribution(context.Background(), &altair.SyncCommitteeContribution{Slot: 0})
	})
}

func TestZZWitnessSelectMissingMember(t *testing.T) {
	zzTry("select-missing-member", func() {
		msgs := SyncCommitteeMessages{1: &altair.SyncCommitteeMessage{ValidatorIndex: 1}}
		_ = msgs.Select(common.Root{}, []common.ValidatorIndex{1, 2})
	})
}
