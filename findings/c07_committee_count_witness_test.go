package common

// Witness for the (fixed) defect in EpochsContext.GetCommitteeCountPerSlot:
// epochComms[0] was indexed before the error of getEpochComms was looked at,
// so an epoch outside previous/current/next panicked (reachable from gossip
// validation, where the target epoch comes from the network).

import (
	"fmt"
	"testing"
)

func TestZZWitnessCommitteeCountOutOfRange(t *testing.T) {
	sh := func(e Epoch) *ShufflingEpoch {
		return &ShufflingEpoch{Epoch: e, Committees: [][][]ValidatorIndex{{{1, 2}}}}
	}
	epc := &EpochsContext{PreviousEpoch: sh(4), CurrentEpoch: sh(5), NextEpoch: sh(6)}
	defer func() {
		if r := recover(); r != nil {
			fmt.Println("WITNESS-REPRODUCED: GetCommitteeCountPerSlot(100) panics:", r)
		}
	}()
	n, err := epc.GetCommitteeCountPerSlot(100)
	fmt.Println("WITNESS-GONE: returned", n, err)
}
