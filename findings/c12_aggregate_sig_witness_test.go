package gossipval

// Witness for the (fixed) defect in ValidateAggregateAndProof: the aggregator's
// signature over the AggregateAndProof was verified against sigRoot[:2] (two
// bytes) instead of the 32-byte signing root, so an honestly signed aggregate
// was REJECTed (and a signature over two bytes would have been accepted).

import (
	"context"
	"fmt"
	"testing"
	"time"

	blsu "github.com/protolambda/bls12-381-util"
	"github.com/protolambda/zrnt/eth2/beacon"
	"github.com/protolambda/zrnt/eth2/beacon/common"
	"github.com/protolambda/zrnt/eth2/beacon/phase0"
	"github.com/protolambda/zrnt/eth2/configs"
	"github.com/protolambda/ztyp/tree"
)

type zzAggEntry struct {
	beacon.ChainEntry
	epc   *common.EpochsContext
	state common.BeaconState
}

func (e *zzAggEntry) EpochsContext(ctx context.Context) (*common.EpochsContext, error) { return e.epc, nil }
func (e *zzAggEntry) State(ctx context.Context) (common.BeaconState, error)           { return e.state, nil }

type zzAggChain struct {
	beacon.Chain
	entry *zzAggEntry
}

func (c *zzAggChain) FinalizedCheckpoint() common.Checkpoint         { return common.Checkpoint{} }
func (c *zzAggChain) ByBlock(root common.Root) (beacon.ChainEntry, bool) { return c.entry, true }
func (c *zzAggChain) InSubtree(anchor, root common.Root) (bool, bool) { return false, true }
func (c *zzAggChain) Towards(ctx context.Context, from common.Root, to common.Slot) (beacon.ChainEntry, error) {
	return c.entry, nil
}

type zzAggBackend struct {
	spec  *common.Spec
	chain *zzAggChain
}

func (b *zzAggBackend) Spec() *common.Spec                                       { return b.spec }
func (b *zzAggBackend) Chain() beacon.Chain                                      { return b.chain }
func (b *zzAggBackend) SlotAfter(d time.Duration) common.Slot                    { return 1 }
func (b *zzAggBackend) IsBadBlock(common.Root) bool                              { return false }
func (b *zzAggBackend) SeenAggregate(common.Root) bool                           { return false }
func (b *zzAggBackend) MarkAggregate(common.Root)                                {}
func (b *zzAggBackend) SeenAggregator(common.Epoch, common.ValidatorIndex) bool  { return false }
func (b *zzAggBackend) MarkAggregator(common.Epoch, common.ValidatorIndex)       {}

func TestZZWitnessHonestAggregateRejected(t *testing.T) {
	spec := configs.Minimal
	n := 64
	sks := make([]*blsu.SecretKey, n)
	vals := make([]phase0.KickstartValidatorData, n)
	for i := 0; i < n; i++ {
		var b [32]byte
		b[31] = byte(i + 1)
		sk := new(blsu.SecretKey)
		if err := sk.Deserialize(&b); err != nil {
			t.Fatal(err)
		}
		sks[i] = sk
		pk, _ := blsu.SkToPk(sk)
		vals[i] = phase0.KickstartValidatorData{Pubkey: common.BLSPubkey(pk.Serialize()), Balance: spec.MAX_EFFECTIVE_BALANCE}
	}
	state, epc, err := phase0.KickStartState(spec, common.Root{1}, 0, vals)
	if err != nil {
		t.Fatal(err)
	}
	slot := common.Slot(1)
	committee, err := epc.GetBeaconCommittee(slot, 0)
	if err != nil {
		t.Fatal(err)
	}
	data := phase0.AttestationData{Slot: slot, Index: 0, BeaconBlockRoot: common.Root{2},
		Source: common.Checkpoint{}, Target: common.Checkpoint{Epoch: 0, Root: common.Root{2}}}
	// every committee member attests
	bits := make(phase0.AttestationBits, len(committee)/8+1)
	for i := range committee {
		bits[i/8] |= 1 << (uint(i) % 8)
	}
	bits[len(committee)/8] |= 1 << (uint(len(committee)) % 8)
	attDom, _ := common.GetDomain(state, common.DOMAIN_BEACON_ATTESTER, 0)
	attRoot := common.ComputeSigningRoot(data.HashTreeRoot(tree.GetHashFn()), attDom)
	var sigs []*blsu.Signature
	for _, vi := range committee {
		sigs = append(sigs, blsu.Sign(sks[vi], attRoot[:]))
	}
	aggSig, _ := blsu.Aggregate(sigs)
	att := phase0.Attestation{AggregationBits: bits, Data: data, Signature: common.BLSSignature(aggSig.Serialize())}
	aggregator := committee[0]
	selDom, _ := common.GetDomain(state, common.DOMAIN_SELECTION_PROOF, 0)
	selRoot := common.ComputeSigningRoot(slot.HashTreeRoot(tree.GetHashFn()), selDom)
	msg := phase0.AggregateAndProof{AggregatorIndex: aggregator, Aggregate: att,
		SelectionProof: common.BLSSignature(blsu.Sign(sks[aggregator], selRoot[:]).Serialize())}
	apDom, _ := common.GetDomain(state, common.DOMAIN_AGGREGATE_AND_PROOF, 0)
	apRoot := common.ComputeSigningRoot(msg.HashTreeRoot(spec, tree.GetHashFn()), apDom)
	// the honest aggregator signs the whole 32-byte signing root
	signed := &phase0.SignedAggregateAndProof{Message: msg, Signature: common.BLSSignature(blsu.Sign(sks[aggregator], apRoot[:]).Serialize())}
	backend := &zzAggBackend{spec: spec, chain: &zzAggChain{entry: &zzAggEntry{epc: epc, state: state}}}
	_, res := ValidateAggregateAndProof(context.Background(), signed, backend)
	fmt.Println("verdict for the honestly signed aggregate:", res.Result, res.Err)
	if res.Result != ACCEPT {
		fmt.Println("WITNESS-REPRODUCED: honest aggregate-and-proof not accepted:", res.Result, res.Err)
	} else {
		fmt.Println("WITNESS-GONE")
	}
}
