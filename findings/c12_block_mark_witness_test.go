package gossipval

// Witness for the (fixed) defect in ValidateBeaconBlock: the (slot, proposer)
// pair was marked as seen right after the signature check, i.e. also for a
// block that is then REJECTed because the proposer is not the expected one.

import (
	"context"
	"fmt"
	"testing"
	"time"

	blsu "github.com/protolambda/bls12-381-util"
	"github.com/protolambda/zrnt/eth2/beacon"
	"github.com/protolambda/zrnt/eth2/beacon/common"
	"github.com/protolambda/zrnt/eth2/configs"
)

type zzEntry struct {
	beacon.ChainEntry
	step common.Step
	epc  *common.EpochsContext
}

func (e *zzEntry) Step() common.Step { return e.step }
func (e *zzEntry) EpochsContext(ctx context.Context) (*common.EpochsContext, error) {
	return e.epc, nil
}

type zzChain struct {
	beacon.Chain
	parent common.Root
	entry  *zzEntry
}

func (c *zzChain) ByBlock(root common.Root) (beacon.ChainEntry, bool) {
	if root == c.parent {
		return c.entry, true
	}
	return nil, false
}
func (c *zzChain) FinalizedCheckpoint() common.Checkpoint { return common.Checkpoint{} }
func (c *zzChain) InSubtree(anchor, root common.Root) (bool, bool) { return false, true }

type zzBackend struct {
	chain  *zzChain
	marked []common.ValidatorIndex
}

func (b *zzBackend) Spec() *common.Spec                      { return configs.Mainnet }
func (b *zzBackend) SlotAfter(d time.Duration) common.Slot   { return 100 }
func (b *zzBackend) Chain() beacon.Chain                     { return b.chain }
func (b *zzBackend) GenesisValidatorsRoot() common.Root      { return common.Root{} }
func (b *zzBackend) SeenBlock(common.Slot, common.ValidatorIndex) bool { return false }
func (b *zzBackend) MarkBlock(s common.Slot, p common.ValidatorIndex)  { b.marked = append(b.marked, p) }

func TestZZWitnessBlockMarkedOnReject(t *testing.T) {
	spec := configs.Mainnet
	var skb [32]byte
	skb[31] = 7
	var sk blsu.SecretKey
	if err := sk.Deserialize(&skb); err != nil {
		t.Fatal(err)
	}
	pk, _ := blsu.SkToPk(&sk)
	pub := common.BLSPubkey(pk.Serialize())
	pc := common.EmptyPubkeyCache()
	pc, _ = pc.AddValidator(0, pub)
	// the expected proposer for every slot of epoch 1 is validator 5, not validator 0
	props := make([]common.ValidatorIndex, spec.SLOTS_PER_EPOCH)
	for i := range props {
		props[i] = 5
	}
	epc := &common.EpochsContext{Spec: spec, ValidatorPubkeyCache: pc,
		Proposers: &common.ProposersEpoch{Spec: spec, Epoch: 1, Proposers: props}}
	parent := common.Root{1}
	slot := spec.SLOTS_PER_EPOCH + 3
	backend := &zzBackend{chain: &zzChain{parent: parent, entry: &zzEntry{step: common.AsStep(slot-1, true), epc: epc}}}
	block := &common.BeaconBlockEnvelope{}
	block.Slot = slot
	block.ProposerIndex = 0
	block.ParentRoot = parent
	block.BlockRoot = common.Root{9}
	version := spec.ForkVersion(slot)
	block.ForkDigest = common.ComputeForkDigest(version, common.Root{})
	dom := common.ComputeDomain(common.DOMAIN_BEACON_PROPOSER, version, common.Root{})
	sr := common.ComputeSigningRoot(block.BlockRoot, dom)
	block.Signature = common.BLSSignature(blsu.Sign(&sk, sr[:]).Serialize())
	res := ValidateBeaconBlock(context.Background(), block, backend)
	fmt.Println("verdict:", res.Result, res.Err, "marked:", backend.marked)
	if res.Result != ACCEPT && len(backend.marked) > 0 {
		fmt.Println("WITNESS-REPRODUCED: block refused with", res.Result, "but (slot, proposer) was marked as seen")
	} else {
		fmt.Println("WITNESS-GONE")
	}
}
