package proto

import (
	"context"
	"testing"

	"github.com/protolambda/zrnt/eth2/configs"
	"github.com/protolambda/zrnt/eth2/forkchoice"
)

// Witness for C09: "a validator's vote counts once ... unknown-target votes change nothing".
// History: G(0) <- A(1) and G(0) <- C(1) (two children of the anchor), B(12) on top of A. Validator 0 (balance 10) votes
// (A, slot 1), validator 1 (balance 6) votes (C, slot 1): head is on A's side. Then validator 0 sends a vote naming block B
// with slot 9 - a slot at which B does not exist, so the voted node (9, B) is unknown. The vote is accepted, validator 0's
// weight leaves A although the vote's target is unknown, and every later recomputation subtracts it again.
func TestZZWitnessUnknownTargetVote(t *testing.T) {
	spec := configs.Minimal
	root := func(b byte) forkchoice.Root { var r forkchoice.Root; r[0] = b; return r }
	G, A, B, C := root(1), root(2), root(3), root(4)
	cp := forkchoice.Checkpoint{Root: G, Epoch: 0}
	fc, err := NewProtoForkChoice(spec, cp, cp, G, 0, forkchoice.Root{}, []forkchoice.Gwei{10, 6, 1},
		NodeSinkFn(func(ctx context.Context, ref forkchoice.NodeRef, canonical bool) error { return nil }))
	if err != nil {
		t.Fatal(err)
	}
	if !fc.ProcessBlock(G, A, 1, 0, 0) || !fc.ProcessBlock(G, C, 1, 0, 0) || !fc.ProcessBlock(A, B, 12, 0, 0) {
		t.Fatal("blocks not accepted")
	}
	if !fc.ProcessAttestation(0, A, 1) || !fc.ProcessAttestation(1, C, 1) {
		t.Fatal("votes not accepted")
	}
	h1, err := fc.Head()
	if err != nil {
		t.Fatal(err)
	}
	// the vote for an unknown node: block B named at slot 2 (B is at slot 3)
	accepted := fc.ProcessAttestation(0, B, 9)
	h2, err2 := fc.Head()
	// some unrelated change, then the head again
	fc.ProcessAttestation(2, B, 12)
	h3, err3 := fc.Head()
	// and the other way round: an honest vote for head block C seen across an empty slot (the gap node (2, C) is in view)
	fc.ProcessSlot(C, 2, 0, 0)
	honest := fc.ProcessAttestation(1, C, 2+8) // a later epoch's slot for which no node exists: must be refused
	_ = honest
	fc2, _ := NewProtoForkChoice(spec, cp, cp, G, 0, forkchoice.Root{}, []forkchoice.Gwei{10, 6, 1},
		NodeSinkFn(func(ctx context.Context, ref forkchoice.NodeRef, canonical bool) error { return nil }))
	fc2.ProcessBlock(G, A, 1, 0, 0)
	fc2.ProcessSlot(A, 2, 0, 0)
	acrossGap := fc2.ProcessAttestation(0, A, 2) // node (2, A) exists: the vote must be accepted
	t.Logf("head before: %v; unknown-target vote accepted=%v; head after: %v (err %v); after one more change: %v (err %v)", h1, accepted, h2, err2, h3, err3)
	if err2 != nil || err3 != nil || h2.Root != h1.Root && accepted || !acrossGap {
		t.Logf("WITNESS-REPRODUCED: unknown-target vote accepted=%v and changed the head=%v; vote for the known gap node (2, A) accepted=%v", accepted, h2.Root != h1.Root, acrossGap)
		return
	}
	t.Logf("WITNESS-NOT-REPRODUCED")
}
