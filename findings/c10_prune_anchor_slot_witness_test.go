package proto

// Witness for the C10 defect "OnPrune forgets the slot of the finalized root": the anchor root's blockSlots entry is
// written BEFORE the entries of the pruned nodes are deleted, and a pruned node may carry the same root (the block's
// own node when finalization lands on one of its later gap-slot nodes) - the delete then wipes the entry just written.
// History: anchor block 1@0, its gap-slot node 1@1 (ProcessSlot), block 2@2 on it; finalization advances to (1, slot 1):
// exactly one node (1@0) is pruned and handed to the sink.  Afterwards root 1 must be known at slot 1 ("every retained
// node answers all queries as before, later blocks keep working").

import (
	"context"
	"fmt"
	"testing"

	. "github.com/protolambda/zrnt/eth2/forkchoice"
)

func TestZZWitnessPruneAnchorSlot(t *testing.T) {
	r := func(b byte) (x Root) { x[0] = b; return }
	sink := NodeSinkFn(func(ctx context.Context, ref NodeRef, canonical bool) error { return nil })
	pr := NewProtoArray(Root{}, r(1), 0, 0, 0, sink)
	pr.ProcessSlot(r(1), 1, 0, 0)
	pr.ProcessBlock(r(1), r(2), 2, 0, 0)
	if _, ok := pr.indices[NodeRef{Root: r(1), Slot: 1}]; !ok {
		fmt.Println("WITNESS-GONE: no gap-slot node 1@1")
		return
	}
	if err := pr.OnPrune(context.Background(), r(1), 1); err != nil {
		fmt.Println("WITNESS-GONE: OnPrune returned", err)
		return
	}
	slot, ok := pr.blockSlots[r(1)]
	if !ok || slot != 1 {
		fmt.Printf("WITNESS-REPRODUCED: slot_recorded: after pruning to 1@1 the finalized root is known at slot %d (known=%v), want slot 1\n", slot, ok)
	}
	if _, ok := pr.GetSlot(r(1)); !ok {
		fmt.Println("WITNESS-REPRODUCED: slot_recorded: GetSlot(finalized root) no longer answers")
	}
	if ok := pr.ProcessBlock(r(1), r(3), 3, 0, 0); !ok {
		fmt.Println("WITNESS-REPRODUCED: slot_recorded: a later block on the finalized root is refused (parent unknown)")
	}
}
