package altair

// Witness for a (fixed) defect: SyncCommitteeSubnetBits is a bitvector, but its OnesCount used the
// bitlist counter, which treats the highest set bit of the last byte as the length delimiter and
// does not count it. A contribution whose only participant sits in the last byte (with the minimal
// preset: any single participant, the subnet bitvector is one byte) counted 0 participants, and
// gossipval.ValidateSyncContribAndProof REJECTed the honest contribution ("needs to have at least 1 participant").

import "testing"

func TestZZWitnessSyncSubnetBitsOnesCount(t *testing.T) {
	for _, bits := range []SyncCommitteeSubnetBits{
		{0x01}, // minimal preset: SYNC_COMMITTEE_SIZE/SYNC_COMMITTEE_SUBNET_COUNT = 8 bits, participant 0
		{0, 0, 0, 0, 0, 0, 0, 0, 0, 0, 0, 0, 0, 0, 0, 0x10}, // mainnet: 128 bits, participant 124
	} {
		want := uint64(0)
		for i := uint64(0); i < uint64(len(bits))*8; i++ {
			if bits.GetBit(i) {
				want++
			}
		}
		if got := bits.OnesCount(); got != want {
			t.Errorf("WITNESS-REPRODUCED: %x has %d participant(s), OnesCount() = %d", []byte(bits), want, got)
		}
	}
}
