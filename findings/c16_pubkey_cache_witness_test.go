package common

// Witness for the (fixed) defect in PubkeyCache.unsafeValidatorIndex: the
// parent was consulted without the trustedParentCount cut, so a forked handle
// reported entries that exist only on the sibling history, and AddValidator's
// fork path recursed forever.

import (
	"fmt"
	"runtime/debug"
	"testing"
)

func zzPub(b byte) (p BLSPubkey) { p[0] = b; return }

func zzForked() (a, b *PubkeyCache) {
	a = EmptyPubkeyCache()
	a, _ = a.AddValidator(0, zzPub(10))
	a, _ = a.AddValidator(1, zzPub(11))
	a, _ = a.AddValidator(2, zzPub(12))
	// history B agrees on validator 0 and then has a different validator 1
	b, _ = a.AddValidator(1, zzPub(21))
	return
}

func TestZZWitnessSiblingHistory(t *testing.T) {
	a, b := zzForked()
	if b == nil || b == a {
		fmt.Println("WITNESS-GONE: no forked handle")
		return
	}
	if idx, ok := b.ValidatorIndex(zzPub(12)); ok {
		fmt.Printf("WITNESS-REPRODUCED: sibling: forked handle reports index %d for a pubkey that exists only on the sibling history\n", idx)
	}
	if idx, ok := b.ValidatorIndex(zzPub(11)); ok {
		fmt.Printf("WITNESS-REPRODUCED: sibling: forked handle reports index %d for the pubkey its own history replaced\n", idx)
	}
}

func TestZZWitnessAddValidatorRecursion(t *testing.T) {
	debug.SetMaxStack(8 << 20)
	_, b := zzForked()
	// pubkey 11 is validator 1 only on the sibling history; on b it is new
	_, err := b.AddValidator(2, zzPub(11))
	fmt.Println("WITNESS-GONE: AddValidator returned", err)
}
