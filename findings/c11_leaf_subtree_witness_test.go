package proto

import (
	"context"
	"testing"

	"github.com/protolambda/zrnt/eth2/forkchoice"
)

// Witness for C11: InSubtree(anchor, root) must say whether root is the anchor or one of its descendants in the tree
// that was inserted. History: G(0) with two children A(1) and B(2) (siblings, both leaves). B is not below A.
func TestZZWitnessInSubtreeSiblingLeaves(t *testing.T) {
	root := func(b byte) forkchoice.Root { var r forkchoice.Root; r[0] = b; return r }
	G, A, B := root(1), root(2), root(3)
	pr := NewProtoArray(forkchoice.Root{}, G, 0, 0, 0, NodeSinkFn(func(ctx context.Context, ref forkchoice.NodeRef, canonical bool) error { return nil }))
	if !pr.ProcessBlock(G, A, 1, 0, 0) || !pr.ProcessBlock(G, B, 2, 0, 0) {
		t.Fatal("blocks not accepted")
	}
	unknown, in := pr.InSubtree(A, B)
	if unknown {
		t.Fatal("unexpectedly unknown")
	}
	if in {
		t.Logf("WITNESS-REPRODUCED: InSubtree(A, B) = true for sibling leaves A(1), B(2) under G(0)")
		return
	}
	t.Logf("WITNESS-NOT-REPRODUCED")
}
