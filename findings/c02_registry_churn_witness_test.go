package phase0

import (
	"testing"

	"github.com/protolambda/zrnt/eth2/beacon/common"
	"github.com/protolambda/zrnt/eth2/configs"
)

// Witness for C02 (registry updates with churn): the exit queue that ComputeRegistryProcessData hands to
// the ejection step must be the one initiate_validator_exit computes:
//   exit_queue_epoch = max(exit epochs that are set, activation-exit epoch of the current epoch)
//   churn = number of validators whose exit epoch == exit_queue_epoch; if churn >= churn limit: epoch + 1
// History: four validators already queued to exit at epoch 10 (a full epoch, churn limit 4), one at epoch 11.
func TestZZWitnessRegistryExitQueueChurn(t *testing.T) {
	spec := configs.Mainnet
	far := common.FAR_FUTURE_EPOCH
	mk := func(exit common.Epoch) common.FlatValidator {
		return common.FlatValidator{EffectiveBalance: spec.MAX_EFFECTIVE_BALANCE, ActivationEligibilityEpoch: 0, ActivationEpoch: 0, ExitEpoch: exit, WithdrawableEpoch: far}
	}
	low := mk(far)
	low.EffectiveBalance = spec.EJECTION_BALANCE // active, to be ejected in this epoch transition: it gets the queue's epoch
	flats := []common.FlatValidator{mk(10), mk(10), mk(10), mk(10), mk(11), low, mk(far), mk(far)}
	cur := common.Epoch(3)
	out, err := ComputeRegistryProcessData(spec, flats, cur)
	if err != nil {
		t.Fatal(err)
	}
	// the specification, literally
	qe := spec.ComputeActivationExitEpoch(cur)
	for _, f := range flats {
		if f.ExitEpoch != far && f.ExitEpoch > qe {
			qe = f.ExitEpoch
		}
	}
	churn := uint64(0)
	for _, f := range flats {
		if f.ExitEpoch == qe {
			churn++
		}
	}
	limit := spec.GetChurnLimit(8)
	if churn >= limit {
		qe++
	}
	if len(out.IndicesToEject) != 1 || out.IndicesToEject[0] != 5 {
		t.Fatalf("expected validator 5 to be ejected, got %v", out.IndicesToEject)
	}
	if out.ChurnLimit != limit {
		t.Fatalf("churn limit %d, spec %d", out.ChurnLimit, limit)
	}
	if out.ExitQueueEnd != qe {
		t.Logf("WITNESS-REPRODUCED: ejected validator 5 would exit at epoch %d (queue churn reported %d), the specification gives %d (churn %d at that epoch, limit %d)", out.ExitQueueEnd, out.ExitQueueEndChurn, qe, churn, limit)
		return
	}
	t.Logf("WITNESS-NOT-REPRODUCED: exit queue epoch %d as specified", out.ExitQueueEnd)
}
