package gossipval

// Witnesses for two (fixed) defects of the sync-committee gossip validators:
//  * the "slot == current_slot" condition was checked with a span of one slot, so a message
//    from the previous slot (beyond the clock disparity) passed the timing condition;
//  * a chain entry whose context has no sync committee loaded (pre-altair) made the
//    validators dereference a nil *IndexedSyncCommittee.

import (
	"context"
	"fmt"
	"strings"
	"testing"
	"time"

	"github.com/protolambda/zrnt/eth2/beacon"
	"github.com/protolambda/zrnt/eth2/beacon/altair"
	"github.com/protolambda/zrnt/eth2/beacon/common"
	"github.com/protolambda/zrnt/eth2/configs"
)

type zzSEntry struct {
	beacon.ChainEntry
	epc *common.EpochsContext
}

func (e *zzSEntry) EpochsContext(ctx context.Context) (*common.EpochsContext, error) { return e.epc, nil }

type zzSChain struct {
	beacon.Chain
	entry *zzSEntry
}

func (c *zzSChain) ByBlockSlot(root common.Root, slot common.Slot) (beacon.ChainEntry, bool) {
	if c.entry == nil {
		return nil, false
	}
	return c.entry, true
}

type zzSBackend struct{ chain *zzSChain }

func (b *zzSBackend) Spec() *common.Spec                     { return configs.Mainnet }
func (b *zzSBackend) Chain() beacon.Chain                    { return b.chain }
func (b *zzSBackend) SlotAfter(d time.Duration) common.Slot  { return 10 }
func (b *zzSBackend) GetDomain(common.BLSDomainType, common.Epoch) (common.BLSDomain, error) {
	return common.BLSDomain{}, nil
}
func (b *zzSBackend) SeenSyncCommMsg(common.ValidatorIndex, common.Slot, uint64) bool { return false }
func (b *zzSBackend) MarkSyncCommMsg(common.ValidatorIndex, common.Slot, uint64)      {}

func TestZZWitnessSyncPreviousSlotPassesTiming(t *testing.T) {
	// current slot is 10 on both sides of the clock disparity; the message is for slot 9
	backend := &zzSBackend{chain: &zzSChain{}}
	_, res := ValidateSyncCommitteeSubnet(context.Background(), 0, &altair.SyncCommitteeMessage{Slot: 9}, backend)
	fmt.Println("verdict:", res.Result, res.Err)
	if res.Err != nil && !strings.Contains(res.Err.Error(), "not for current slot") {
		fmt.Println("WITNESS-REPRODUCED: a message for the previous slot passed the current-slot condition (refused later for another reason)")
	} else {
		fmt.Println("WITNESS-GONE")
	}
}

func TestZZWitnessSyncNilCommittee(t *testing.T) {
	defer func() {
		if r := recover(); r != nil {
			fmt.Println("WITNESS-REPRODUCED: validator panics on a context without sync committee:", r)
		}
	}()
	backend := &zzSBackend{chain: &zzSChain{entry: &zzSEntry{epc: &common.EpochsContext{Spec: configs.Mainnet}}}}
	_, res := ValidateSyncCommitteeSubnet(context.Background(), 0, &altair.SyncCommitteeMessage{Slot: 10}, backend)
	fmt.Println("WITNESS-GONE: verdict", res.Result, res.Err)
}
