package proto

// Witness for the known findings on ProtoArray.OnPrune (C10) and on the
// absolute node indices handed to ComputeDeltas after a prune (C09).
// Injected with `go test -overlay`; prints WITNESS-REPRODUCED lines for every
// symptom that still shows on the real code.

import (
	"context"
	"fmt"
	"testing"

	"github.com/protolambda/zrnt/eth2/beacon/common"
	. "github.com/protolambda/zrnt/eth2/forkchoice"
)

func zzRoot(b byte) (x Root) { x[0] = b; return }

// chain 1@0 <- 2@1 <- 3@2, with a fork 4@2 on 1; prune to 3@2.
func zzBuild(sink NodeSink) *ProtoArray {
	pr := NewProtoArray(Root{}, zzRoot(1), 0, 0, 0, sink)
	pr.ProcessBlock(zzRoot(1), zzRoot(2), 1, 0, 0)
	pr.ProcessBlock(zzRoot(2), zzRoot(3), 2, 0, 0)
	pr.ProcessBlock(zzRoot(1), zzRoot(4), 2, 0, 0)
	return pr
}

func TestZZWitnessOnPrune(t *testing.T) {
	var got []NodeRef
	sink := NodeSinkFn(func(ctx context.Context, ref NodeRef, canonical bool) error {
		got = append(got, ref)
		return nil
	})
	pr := zzBuild(sink)
	before := len(pr.nodes)
	if err := pr.OnPrune(context.Background(), zzRoot(3), 2); err != nil {
		fmt.Println("WITNESS-GONE: OnPrune returned", err)
		return
	}
	seen := map[NodeRef]int{}
	for _, r := range got {
		seen[r]++
	}
	for r, n := range seen {
		if n > 1 {
			fmt.Printf("WITNESS-REPRODUCED: sink-once: node %x@%d reported to the prune sink %d times\n", r.Root[0], r.Slot, n)
		}
	}
	if len(seen) < len(got) || len(got) != before-len(pr.nodes) {
		fmt.Printf("WITNESS-REPRODUCED: sink-exact: %d nodes dropped, %d distinct nodes reported\n", before-len(pr.nodes), len(seen))
	}
	if len(pr.indices) != len(pr.nodes) {
		fmt.Printf("WITNESS-REPRODUCED: inv_size/inv_idx: %d index entries for %d nodes after pruning\n", len(pr.indices), len(pr.nodes))
	}
	for _, n := range pr.nodes {
		if n.Ref.Root == zzRoot(4) || (n.Ref.Root == zzRoot(1)) {
			fmt.Printf("WITNESS-REPRODUCED: exact-prune: non-descendant node %x@%d survived pruning to 3@2\n", n.Ref.Root[0], n.Ref.Slot)
		}
		if n.ForkchoiceParent != NONE && n.ForkchoiceParent < pr.indexOffset {
			fmt.Printf("WITNESS-REPRODUCED: inv_par: retained node %x@%d keeps fork-choice parent %d below indexOffset %d\n", n.Ref.Root[0], n.Ref.Slot, n.ForkchoiceParent, pr.indexOffset)
		}
	}
	func() {
		defer func() {
			if r := recover(); r != nil {
				fmt.Println("WITNESS-REPRODUCED: later-votes: ApplyScoreChanges after the prune panics:", r)
			}
		}()
		_ = pr.ApplyScoreChanges(make([]SignedGwei, len(pr.nodes)), 0, 0)
	}()
}

func TestZZWitnessDeltasAfterPrune(t *testing.T) {
	sink := NodeSinkFn(func(ctx context.Context, ref NodeRef, canonical bool) error { return nil })
	pr := zzBuild(sink)
	if err := pr.OnPrune(context.Background(), zzRoot(3), 2); err != nil || pr.indexOffset == 0 {
		fmt.Println("WITNESS-GONE: no index offset after pruning")
		return
	}
	spec := &common.Spec{}
	spec.SLOTS_PER_EPOCH = 8
	vs := NewProtoVoteStore(spec)
	vs.ProcessAttestation(0, zzRoot(3), 2)
	func() {
		defer func() {
			if r := recover(); r != nil {
				fmt.Println("WITNESS-REPRODUCED: relative: ComputeDeltas over Indices() after a prune panics:", r)
			}
		}()
		d := vs.ComputeDeltas(pr.Indices(), []Gwei{32}, []Gwei{32})
		if len(d) != len(pr.nodes) {
			fmt.Printf("WITNESS-REPRODUCED: relative: %d deltas for %d nodes\n", len(d), len(pr.nodes))
		}
	}()
}
