package proto

// Witness for the C11 defect "a never-inserted root is reported as known": InSubtree returned (unknown=false,
// inSubtree=true) for two equal roots before looking either of them up, so asking whether a root the array has
// never seen lies in its own subtree was answered "yes, known" - the property wants roots that were never inserted
// (or were pruned) reported as unknown rather than guessed.

import (
	"fmt"
	"testing"

	. "github.com/protolambda/zrnt/eth2/forkchoice"
)

func TestZZWitnessInSubtreeUnknownSameRoot(t *testing.T) {
	r := func(b byte) (x Root) { x[0] = b; return }
	pr := NewProtoArray(Root{}, r(1), 0, 0, 0, nil)
	pr.ProcessBlock(r(1), r(2), 1, 0, 0)
	unknown, in := pr.InSubtree(r(9), r(9))
	if !unknown || in {
		fmt.Printf("WITNESS-REPRODUCED: unknown_roots: InSubtree(x, x) for a never-inserted root x answers unknown=%v inSubtree=%v\n", unknown, in)
	}
	if unknown, in := pr.InSubtree(r(2), r(2)); unknown || !in {
		fmt.Printf("WITNESS-GONE: a known root is no longer in its own subtree (unknown=%v inSubtree=%v)\n", unknown, in)
	}
}
