package common

import (
	"sync"
	"testing"
)

// Witness for the C17 finding common.PubkeyCache.AddValidator#post:atomic: AddValidator looks the pair up in two
// separate read sections (ValidatorIndex, Pubkey), releases the lock, and appends in a third section.  Several
// goroutines adding the SAME next (index, pubkey) pair — in every sequential order the first appends and the others
// are no-ops returning (pc, nil) — can all pass the lookups before one of them appends; the others then fail the
// "expected next index" test and return an error no sequential order produces.  (A schedule is needed, so the
// witness retries; it reports when it has seen the error.)
func TestZZWitnessAddValidatorAtomicity(t *testing.T) {
	var pub BLSPubkey
	pub[0] = 0xaa
	for round := 0; round < 20000; round++ {
		pc := EmptyPubkeyCache()
		var wg sync.WaitGroup
		start := make(chan struct{})
		errs := make([]error, 4)
		for g := 0; g < 4; g++ {
			wg.Add(1)
			go func(g int) {
				defer wg.Done()
				<-start
				_, errs[g] = pc.AddValidator(0, pub)
			}(g)
		}
		close(start)
		wg.Wait()
		for _, err := range errs {
			if err != nil {
				t.Logf("WITNESS-REPRODUCED: check-then-act (round %d): concurrent AddValidator(0, pub) returned an error (%.60s...); every sequential order returns nil for all callers", round, err)
				return
			}
		}
	}
	t.Log("not reproduced in 20000 rounds (schedule-dependent)")
}
