package beacon

// Witness for the C08 defect "the epochs context never rotates its sync-committee caches for a wrapped state":
// ProcessSlots hands the UpgradeableBeaconState wrapper to EpochsContext.RotateEpochs, which looks for the
// sync-committee accessors by type assertion on that value; the repository's wrapper embeds the BeaconState
// interface, so the assertion fails for every fork and the cached committees stay those of the upgrade epoch.
// History: 64 validators, altair from genesis (minimal preset), slots processed through the standard wrapper up
// to one epoch past the first sync-committee period boundary; at each epoch the long-lived context is compared
// with one computed from scratch from the state.

import (
	"context"
	"encoding/binary"
	"fmt"
	"reflect"
	"testing"

	blsu "github.com/protolambda/bls12-381-util"

	"github.com/protolambda/zrnt/eth2/beacon/altair"
	"github.com/protolambda/zrnt/eth2/beacon/common"
	"github.com/protolambda/zrnt/eth2/beacon/phase0"
	"github.com/protolambda/zrnt/eth2/configs"
)

func TestZZWitnessWrapperSyncCommittees(t *testing.T) {
	specV := *configs.Minimal
	spec := &specV
	spec.ALTAIR_FORK_EPOCH = 0
	far := ^common.Epoch(0)
	spec.BELLATRIX_FORK_EPOCH, spec.CAPELLA_FORK_EPOCH, spec.DENEB_FORK_EPOCH, spec.ELECTRA_FORK_EPOCH = far, far, far, far
	const n = 64
	vals := make([]phase0.KickstartValidatorData, n)
	for i := range vals {
		var raw [32]byte
		binary.BigEndian.PutUint64(raw[24:], uint64(i+1))
		var sk blsu.SecretKey
		if err := sk.Deserialize(&raw); err != nil {
			t.Fatal(err)
		}
		pk, err := blsu.SkToPk(&sk)
		if err != nil {
			t.Fatal(err)
		}
		vals[i] = phase0.KickstartValidatorData{Pubkey: common.BLSPubkey(pk.Serialize()), Balance: spec.MAX_EFFECTIVE_BALANCE}
	}
	genesis, epc, err := phase0.KickStartState(spec, common.Root{1}, 1000, vals)
	if err != nil {
		t.Fatal(err)
	}
	post, err := altair.UpgradeToAltair(spec, epc, genesis)
	if err != nil {
		t.Fatal(err)
	}
	if err := epc.LoadSyncCommittees(post); err != nil {
		t.Fatal(err)
	}
	state := &StandardUpgradeableBeaconState{BeaconState: post}
	lastEpoch := spec.EPOCHS_PER_SYNC_COMMITTEE_PERIOD + 1
	for epoch := common.Epoch(1); epoch <= lastEpoch; epoch++ {
		if err := common.ProcessSlots(context.Background(), spec, epc, state, common.Slot(epoch)*spec.SLOTS_PER_EPOCH); err != nil {
			fmt.Println("WITNESS-GONE: ProcessSlots:", err)
			return
		}
		fresh, err := common.NewEpochsContext(spec, state.BeaconState)
		if err != nil {
			fmt.Println("WITNESS-GONE: NewEpochsContext:", err)
			return
		}
		if fresh.NextSyncCommittee == nil || epc.NextSyncCommittee == nil || fresh.CurrentSyncCommittee == nil || epc.CurrentSyncCommittee == nil {
			fmt.Printf("WITNESS-REPRODUCED: c08_sync_wrapped: epoch %d: a sync committee cache is missing\n", epoch)
			return
		}
		if !reflect.DeepEqual(epc.NextSyncCommittee.Indices, fresh.NextSyncCommittee.Indices) {
			fmt.Printf("WITNESS-REPRODUCED: c08_sync_wrapped: epoch %d: the context's next sync committee is not the state's (stale since the last period)\n", epoch)
		}
		if !reflect.DeepEqual(epc.CurrentSyncCommittee.Indices, fresh.CurrentSyncCommittee.Indices) {
			fmt.Printf("WITNESS-REPRODUCED: c08_sync_wrapped: epoch %d: the context's current sync committee is not the state's\n", epoch)
		}
	}
}
