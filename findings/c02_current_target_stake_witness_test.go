package altair

import (
	"context"
	"testing"

	"github.com/protolambda/zrnt/eth2/beacon/common"
	"github.com/protolambda/zrnt/eth2/configs"
)

// Witness for C02 (justification and finalization from altair on): the current-epoch target balance that
// process_justification_and_finalization weighs is
//   get_total_balance(get_unslashed_participating_indices(state, TIMELY_TARGET_FLAG_INDEX, get_current_epoch(state)))
// i.e. over the validators active in the CURRENT epoch. History: five validators, the fifth activated at the current
// epoch (so it is in the current epoch's committees and has attested with a timely target), all five with the flag.
func TestZZWitnessCurrentTargetStakeNewlyActivated(t *testing.T) {
	spec := configs.Minimal
	far := common.FAR_FUTURE_EPOCH
	cur := common.Epoch(10)
	mk := func(activation common.Epoch) common.FlatValidator {
		return common.FlatValidator{EffectiveBalance: spec.MAX_EFFECTIVE_BALANCE, ActivationEligibilityEpoch: 0, ActivationEpoch: activation, ExitEpoch: far, WithdrawableEpoch: far}
	}
	flats := []common.FlatValidator{mk(0), mk(0), mk(0), mk(0), mk(cur)}
	state := NewBeaconStateView(spec)
	prevPart := ParticipationRegistry{0, 0, 0, 0, 0}
	currPart := ParticipationRegistry{TIMELY_TARGET_FLAG, TIMELY_TARGET_FLAG, TIMELY_TARGET_FLAG, TIMELY_TARGET_FLAG, TIMELY_TARGET_FLAG}
	pv, err := prevPart.View(spec)
	if err != nil {
		t.Fatal(err)
	}
	cv, err := currPart.View(spec)
	if err != nil {
		t.Fatal(err)
	}
	if err := state.Set(_statePreviousEpochParticipation, pv); err != nil {
		t.Fatal(err)
	}
	if err := state.Set(_stateCurrentEpochParticipation, cv); err != nil {
		t.Fatal(err)
	}
	epc := &common.EpochsContext{
		Spec:          spec,
		PreviousEpoch: &common.ShufflingEpoch{Epoch: cur - 1, ActiveIndices: []common.ValidatorIndex{0, 1, 2, 3}},
		CurrentEpoch:  &common.ShufflingEpoch{Epoch: cur, ActiveIndices: []common.ValidatorIndex{0, 1, 2, 3, 4}},
	}
	out, err := ComputeEpochAttesterData(context.Background(), spec, epc, flats, state)
	if err != nil {
		t.Fatal(err)
	}
	// the specification, literally: active in the current epoch, flag set in current_epoch_participation, not slashed
	want := common.Gwei(0)
	for i, f := range flats {
		if f.ActivationEpoch <= cur && cur < f.ExitEpoch && currPart[i]&TIMELY_TARGET_FLAG != 0 && !f.Slashed {
			want += f.EffectiveBalance
		}
	}
	if want < spec.EFFECTIVE_BALANCE_INCREMENT {
		want = spec.EFFECTIVE_BALANCE_INCREMENT
	}
	if out.CurrEpochUnslashedTargetStake != want {
		t.Logf("WITNESS-REPRODUCED: current-epoch target stake %d, the specification gives %d (the validator activated in the current epoch is not counted)", out.CurrEpochUnslashedTargetStake, want)
		return
	}
	t.Logf("WITNESS-NOT-REPRODUCED: current-epoch target stake %d as specified", out.CurrEpochUnslashedTargetStake)
}
