package proto

// Witness for the (fixed) defect "absolute node index used to index pr.nodes":
// once indexOffset > 0, CanonAtSlot / inSubtree / Search read pr.nodes[i] with
// the absolute index i instead of i-indexOffset.

import (
	"context"
	"fmt"
	"testing"

	. "github.com/protolambda/zrnt/eth2/forkchoice"
)

func zzR(b byte) (x Root) { x[0] = b; return }

func TestZZWitnessAbsoluteIndex(t *testing.T) {
	sink := NodeSinkFn(func(ctx context.Context, ref NodeRef, canonical bool) error { return nil })
	pr := NewProtoArray(Root{}, zzR(1), 0, 0, 0, sink)
	pr.ProcessBlock(zzR(1), zzR(2), 1, 0, 0)
	pr.ProcessBlock(zzR(2), zzR(3), 2, 0, 0)
	pr.ProcessBlock(zzR(3), zzR(5), 3, 0, 0)
	if err := pr.OnPrune(context.Background(), zzR(3), 2); err != nil || pr.indexOffset == 0 {
		fmt.Println("WITNESS-GONE: no index offset after pruning")
		return
	}
	func() {
		defer func() {
			if r := recover(); r != nil {
				fmt.Println("WITNESS-REPRODUCED: CanonAtSlot after a prune panics:", r)
			}
		}()
		_, err := pr.CanonAtSlot(zzR(3), 2, false)
		fmt.Println("CanonAtSlot returned", err)
	}()
	func() {
		defer func() {
			if r := recover(); r != nil {
				fmt.Println("WITNESS-REPRODUCED: InSubtree after a prune panics:", r)
			}
		}()
		pr.updatedConnections = true
		unknown, in := pr.InSubtree(zzR(3), zzR(5))
		fmt.Println("InSubtree returned", unknown, in)
	}()
}
