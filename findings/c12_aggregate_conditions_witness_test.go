package gossipval

// Witness for the (fixed) defect in ValidateAggregateAndProof: the conditions
// "the voted block has been seen" and "the target is an ancestor of the voted
// block" of the beacon_aggregate_and_proof topic were not checked (a TODO in the
// source): an aggregate whose target root is unrelated to the voted block was
// ACCEPTed.  Uses the helpers of c12_aggregate_sig_witness_test.go's harness
// (duplicated here so that each witness file is self-contained).

import (
	"context"
	"fmt"
	"testing"
	"time"

	blsu "github.com/protolambda/bls12-381-util"
	"github.com/protolambda/zrnt/eth2/beacon"
	"github.com/protolambda/zrnt/eth2/beacon/common"
	"github.com/protolambda/zrnt/eth2/beacon/phase0"
	"github.com/protolambda/zrnt/eth2/configs"
	"github.com/protolambda/ztyp/tree"
)

type zzCEntry struct {
	beacon.ChainEntry
	epc   *common.EpochsContext
	state common.BeaconState
}

func (e *zzCEntry) Step() common.Step                                                     { return common.AsStep(1, true) }
func (e *zzCEntry) EpochsContext(ctx context.Context) (*common.EpochsContext, error)     { return e.epc, nil }
func (e *zzCEntry) State(ctx context.Context) (common.BeaconState, error)               { return e.state, nil }

type zzCChain struct {
	beacon.Chain
	entry      *zzCEntry
	voted      common.Root
	target     common.Root
}

func (c *zzCChain) FinalizedCheckpoint() common.Checkpoint { return common.Checkpoint{} }
func (c *zzCChain) ByBlock(root common.Root) (beacon.ChainEntry, bool) {
	if root == c.voted {
		return c.entry, true
	}
	return nil, false
}
func (c *zzCChain) InSubtree(anchor, root common.Root) (bool, bool) {
	if anchor == c.target {
		return false, false // the target is NOT an ancestor of the voted block
	}
	return false, true
}
func (c *zzCChain) Towards(ctx context.Context, from common.Root, to common.Slot) (beacon.ChainEntry, error) {
	return c.entry, nil
}

type zzCBackend struct {
	spec  *common.Spec
	chain *zzCChain
}

func (b *zzCBackend) Spec() *common.Spec                                      { return b.spec }
func (b *zzCBackend) Chain() beacon.Chain                                     { return b.chain }
func (b *zzCBackend) SlotAfter(d time.Duration) common.Slot                   { return 1 }
func (b *zzCBackend) IsBadBlock(common.Root) bool                             { return false }
func (b *zzCBackend) SeenAggregate(common.Root) bool                          { return false }
func (b *zzCBackend) MarkAggregate(common.Root)                               {}
func (b *zzCBackend) SeenAggregator(common.Epoch, common.ValidatorIndex) bool { return false }
func (b *zzCBackend) MarkAggregator(common.Epoch, common.ValidatorIndex)      {}

func TestZZWitnessAggregateTargetNotAncestor(t *testing.T) {
	spec := configs.Minimal
	n := 64
	sks := make([]*blsu.SecretKey, n)
	vals := make([]phase0.KickstartValidatorData, n)
	for i := 0; i < n; i++ {
		var b [32]byte
		b[31] = byte(i + 1)
		sk := new(blsu.SecretKey)
		if err := sk.Deserialize(&b); err != nil {
			t.Fatal(err)
		}
		sks[i] = sk
		pk, _ := blsu.SkToPk(sk)
		vals[i] = phase0.KickstartValidatorData{Pubkey: common.BLSPubkey(pk.Serialize()), Balance: spec.MAX_EFFECTIVE_BALANCE}
	}
	state, epc, err := phase0.KickStartState(spec, common.Root{1}, 0, vals)
	if err != nil {
		t.Fatal(err)
	}
	slot := common.Slot(1)
	committee, _ := epc.GetBeaconCommittee(slot, 0)
	voted, target := common.Root{2}, common.Root{3}
	data := phase0.AttestationData{Slot: slot, Index: 0, BeaconBlockRoot: voted, Target: common.Checkpoint{Epoch: 0, Root: target}}
	bits := make(phase0.AttestationBits, len(committee)/8+1)
	for i := range committee {
		bits[i/8] |= 1 << (uint(i) % 8)
	}
	bits[len(committee)/8] |= 1 << (uint(len(committee)) % 8)
	attDom, _ := common.GetDomain(state, common.DOMAIN_BEACON_ATTESTER, 0)
	attRoot := common.ComputeSigningRoot(data.HashTreeRoot(tree.GetHashFn()), attDom)
	var sigs []*blsu.Signature
	for _, vi := range committee {
		sigs = append(sigs, blsu.Sign(sks[vi], attRoot[:]))
	}
	aggSig, _ := blsu.Aggregate(sigs)
	att := phase0.Attestation{AggregationBits: bits, Data: data, Signature: common.BLSSignature(aggSig.Serialize())}
	aggregator := committee[0]
	selDom, _ := common.GetDomain(state, common.DOMAIN_SELECTION_PROOF, 0)
	selRoot := common.ComputeSigningRoot(slot.HashTreeRoot(tree.GetHashFn()), selDom)
	msg := phase0.AggregateAndProof{AggregatorIndex: aggregator, Aggregate: att,
		SelectionProof: common.BLSSignature(blsu.Sign(sks[aggregator], selRoot[:]).Serialize())}
	apDom, _ := common.GetDomain(state, common.DOMAIN_AGGREGATE_AND_PROOF, 0)
	apRoot := common.ComputeSigningRoot(msg.HashTreeRoot(spec, tree.GetHashFn()), apDom)
	signed := &phase0.SignedAggregateAndProof{Message: msg, Signature: common.BLSSignature(blsu.Sign(sks[aggregator], apRoot[:]).Serialize())}
	backend := &zzCBackend{spec: spec, chain: &zzCChain{entry: &zzCEntry{epc: epc, state: state}, voted: voted, target: target}}
	_, res := ValidateAggregateAndProof(context.Background(), signed, backend)
	fmt.Println("verdict:", res.Result, res.Err)
	if res.Result == ACCEPT {
		fmt.Println("WITNESS-REPRODUCED: aggregate whose target is not an ancestor of the voted block was ACCEPTed")
	} else {
		fmt.Println("WITNESS-GONE")
	}
}
