package common

import (
	"encoding/hex"
	"sync"
	"testing"
)

// Witness for the C17 finding common.CachedPubkey.Pubkey#lock:write:@1.decompressed (run with -race):
// two goroutines ask the same cached key, handed out by one shared PubkeyCache, for its decompressed form.
// Both find the lazy field nil and both write it, without any synchronisation: the race detector reports
// the unsynchronised accesses at bls.go (CachedPubkey.Pubkey).
func TestZZWitnessDecompressedRace(t *testing.T) {
	// the BLS12-381 G1 generator, compressed: a valid public key
	raw, _ := hex.DecodeString("97f1d3a73197d7942695638c4fa9ac0fc3688c4f9774b905a14e3a3f171bac586c55e83ff97a1aeffb3af00adb22c6bb")
	var pub BLSPubkey
	copy(pub[:], raw)
	pc, err := EmptyPubkeyCache().AddValidator(0, pub)
	if err != nil {
		t.Fatal(err)
	}
	shared, ok := pc.Pubkey(0)
	if !ok {
		t.Fatal("key not cached")
	}
	if _, err := (&CachedPubkey{Compressed: pub}).Pubkey(); err != nil {
		t.Skipf("test key rejected by the BLS library: %v", err)
	}
	var wg sync.WaitGroup
	start := make(chan struct{})
	for g := 0; g < 2; g++ {
		wg.Add(1)
		go func() {
			defer wg.Done()
			<-start
			if _, err := shared.Pubkey(); err != nil {
				t.Error(err)
			}
		}()
	}
	close(start)
	wg.Wait()
	t.Log("WITNESS-RAN: two concurrent CachedPubkey.Pubkey calls on one shared entry (a report above, if any, is the race detector's)")
}
