#!/usr/bin/env python3
"""Generates the thin C18 (cancellation) contracts for every function under eth2/beacon that takes a
context.Context, into the packages' zz_verif_contracts.go (between BEGIN/END markers).  One-off helper:
the generated text is committed in /repo; the checks never run this script."""
import re, os, sys, collections
import os as _os
REPO = _os.environ.get('GEN_REPO', '/repo')
# functions whose contract omits the 'cancelled' clause (they never poll the context on some success path)
NO_CANCELLED = set(l.strip() for l in open(os.path.join(os.path.dirname(__file__), 'c18_no_cancelled.txt')) if l.strip() and not l.startswith('#'))
EXTRA = {}  # key -> extra contract lines
def _sfx(lines, fork):
    import re as _re
    return [_re.sub(r'\beng_(hash_err|hash_ok|notify_err|notify_valid|vh_err|vh_ok)\(', r'eng_\1_%s(' % fork, l) for l in lines]
def _vnp(deneb):
    r = ', old(newPayloadRequest.ParentBeaconBlockRoot)' if deneb else ''
    vh = ' && !eng_vh_err(eng, old(newPayloadRequest.ExecutionPayload), old(newPayloadRequest.VersionedHashes)) && eng_vh_ok(eng, old(newPayloadRequest.ExecutionPayload), old(newPayloadRequest.VersionedHashes))' if deneb else ''
    return ['//@   assigns ghost(n_eng_notify)',
            '//@   ensures verdict: err == nil && r0 ==> !eng_hash_err(eng, old(newPayloadRequest.ExecutionPayload)%s) && eng_hash_ok(eng, old(newPayloadRequest.ExecutionPayload)%s)%s && !eng_notify_err(eng, old(newPayloadRequest.ExecutionPayload)%s) && eng_notify_valid(eng, old(newPayloadRequest.ExecutionPayload)%s) && n_eng_notify == old(n_eng_notify) + 1' % (r, r, vh, r, r),
            '//@   ensures faults: (eng_hash_err(eng, old(newPayloadRequest.ExecutionPayload)%s) ==> err != nil) && (n_eng_notify > old(n_eng_notify) && eng_notify_err(eng, old(newPayloadRequest.ExecutionPayload)%s) ==> err != nil)' % (r, r),
            '//@   ensures asked_once: n_eng_notify <= old(n_eng_notify) + 1']
for f in ('bellatrix', 'capella'):
    EXTRA['eth2/beacon/%s:VerifyAndNotifyNewPayload' % f] = [l.replace('old(newPayloadRequest.ExecutionPayload)', 'old(*newPayloadRequest.ExecutionPayload)') for l in _sfx(_vnp(False), f)]
    EXTRA['eth2/beacon/%s:ProcessExecutionPayload' % f] = _sfx([
        '//@   assigns ghost(n_eng_notify), ghost(n_set_exec_header)',
        '//@   ensures approved: err == nil ==> !eng_hash_err(engine, old(*executionPayload)) && eng_hash_ok(engine, old(*executionPayload)) && !eng_notify_err(engine, old(*executionPayload)) && eng_notify_valid(engine, old(*executionPayload)) && n_eng_notify == old(n_eng_notify) + 1',
        '//@   ensures header_after_approval: n_set_exec_header > old(n_set_exec_header) ==> n_set_exec_header == old(n_set_exec_header) + 1 && eng_hash_ok(engine, old(*executionPayload)) && eng_notify_valid(engine, old(*executionPayload)) && !eng_hash_err(engine, old(*executionPayload)) && !eng_notify_err(engine, old(*executionPayload))',
        '//@   ensures header_on_success: err == nil ==> n_set_exec_header == old(n_set_exec_header) + 1'], f)
for f in ('bellatrix', 'capella', 'deneb'):
    EXTRA['eth2/beacon/%s:BeaconStateView.ProcessBlock' % f] = ['//@   assigns ghost(n_eng_notify), ghost(n_set_exec_header)']
for k in ('eth2/beacon/common:StateTransition', 'eth2/beacon/common:PostSlotTransition'):
    EXTRA[k] = ['//@   assigns ghost(n_eng_notify), ghost(n_set_exec_header)']
PROPS = {'eth2/beacon:StandardUpgradeableBeaconState.UpgradeMaybe': ' C14', 'eth2/beacon/common:ProcessHeader': ' C03 C01'}
# process_block_header's conditions (C03): slot, newer than the latest header, proposer index in range and expected, parent root, proposer not slashed
PROPS['eth2/beacon/phase0:ProcessDeposits'] = ' C03'
# process_operations: the block carries exactly min(MAX_DEPOSITS, eth1 deposit count - next deposit index) deposits
EXTRA['eth2/beacon/phase0:ProcessDeposits'] = [
    '//@   ensures c03_count: err == nil ==> !st_eth1_err(state) && !st_depidx_err(state) && len(ops) == min(spec.MAX_DEPOSITS, (st_eth1(state).DepositCount - st_depidx(state)) % 18446744073709551616)']
EXTRA['eth2/beacon/common:ProcessHeader'] = [
    '//@   ensures c03_slot: err == nil ==> !st_slot_err(state) && old(header.Slot) == st_slot(state)',
    '//@   ensures c03_newer: err == nil ==> !st_latest_err(state) && old(st_latest(state).Slot) < old(header.Slot)',
    '//@   ensures c03_proposer: err == nil ==> !st_vals_err(state) && reg_valid(st_vals(state), old(header.ProposerIndex)) && old(header.ProposerIndex) == expectedProposer',
    '//@   ensures c03_parent: err == nil ==> old(header.ParentRoot) == header_root(old(*st_latest(state)))',
    '//@   ensures c03_not_slashed: err == nil ==> !v_slashed(reg_val(st_vals(state), old(header.ProposerIndex)))',
    '//@   assigns ghost(n_set_lhdr), ghost(set_lhdr)',
    '//@   ensures c01_store: err == nil ==> n_set_lhdr == old(n_set_lhdr) + 1 && set_lhdr.Slot == old(header.Slot) && set_lhdr.ProposerIndex == old(header.ProposerIndex) && set_lhdr.ParentRoot == old(header.ParentRoot) && set_lhdr.BodyRoot == old(header.BodyRoot) && (forall k :: 0 <= k && k < 32 ==> set_lhdr.StateRoot[k] == 0)']
EXTRA['eth2/beacon:StandardUpgradeableBeaconState.UpgradeMaybe'] = [
    '//@   requires s != nil && spec != nil',
    '//@   assigns s.BeaconState',
    '//@   ensures upgraded: err == nil ==> (exists sl :: 0 <= sl && sl < 18446744073709551616 && st_fork(s.BeaconState) == up_chain(old(st_fork(s.BeaconState)), sl, fork_slot(old(spec.ALTAIR_FORK_EPOCH), old(spec.SLOTS_PER_EPOCH)), fork_slot(old(spec.BELLATRIX_FORK_EPOCH), old(spec.SLOTS_PER_EPOCH)), fork_slot(old(spec.CAPELLA_FORK_EPOCH), old(spec.SLOTS_PER_EPOCH)), fork_slot(old(spec.DENEB_FORK_EPOCH), old(spec.SLOTS_PER_EPOCH)), fork_slot(old(spec.ELECTRA_FORK_EPOCH), old(spec.SLOTS_PER_EPOCH))))',
    '//@   ensures known: old(st_fork(s.BeaconState)) >= 0 && err == nil ==> st_fork(s.BeaconState) >= old(st_fork(s.BeaconState))']
EXTRA['eth2/beacon/common:ProcessSlots'] = ['//@   loop 1', '//@     invariant ctx_t == old(ctx_t) ==> currentSlot < slot']
EXTRA['eth2/beacon/deneb:VerifyAndNotifyNewPayload'] = [l.replace('old(newPayloadRequest.ExecutionPayload)', 'old(*newPayloadRequest.ExecutionPayload)') for l in _sfx(_vnp(True), 'deneb')]
EXTRA['eth2/beacon/deneb:ProcessExecutionPayload'] = [
    '//@   assigns ghost(n_eng_notify), ghost(n_set_exec_header)',
    '//@   opt rangeindex=on',
    '//@   ensures asked: err == nil ==> n_eng_notify == old(n_eng_notify) + 1',
    '//@   ensures approved: err == nil ==> (exists root RootT :: !eng_hash_err_deneb(engine, old(body.ExecutionPayload), root) && eng_hash_ok_deneb(engine, old(body.ExecutionPayload), root) && !eng_notify_err_deneb(engine, old(body.ExecutionPayload), root) && eng_notify_valid_deneb(engine, old(body.ExecutionPayload), root))',
    '//@   ensures hashes: err == nil ==> (exists hs HashesT :: {eng_vh_ok_deneb(engine, old(body.ExecutionPayload), hs)} !eng_vh_err_deneb(engine, old(body.ExecutionPayload), hs) && eng_vh_ok_deneb(engine, old(body.ExecutionPayload), hs) && len(hs) == old(len(body.BlobKZGCommitments)) && (forall i :: {hs[i]} 0 <= i && i < len(hs) ==> hs[i] == kzg_vhash(old(body.BlobKZGCommitments[i]))))',
    '//@   ensures header_on_success: err == nil ==> n_set_exec_header == old(n_set_exec_header) + 1',
    '//@   ensures header_after_approval: n_set_exec_header > old(n_set_exec_header) ==> n_set_exec_header == old(n_set_exec_header) + 1 && n_eng_notify == old(n_eng_notify) + 1',
    '//@   loop 1',
    '//@     invariant len(versionedHashes) == rangeindex + 1 && n_eng_notify == old(n_eng_notify) && n_set_exec_header == old(n_set_exec_header)',
    '//@     invariant forall i :: {versionedHashes[i]} 0 <= i && i <= rangeindex ==> versionedHashes[i] == kzg_vhash(body.BlobKZGCommitments[i])']

PROPS['eth2/beacon/common:PostSlotTransition'] = ' C03'
PROPS['eth2/beacon/common:ProcessSlots'] = ' C03'
# the block is for the state's slot and (when asked to validate) carries the proposer's signature under the state's current fork version
EXTRA['eth2/beacon/common:PostSlotTransition'] += [
    '//@   ensures c03_slot: err == nil ==> !st_slot_err(state) && st_slot(state) == old(benv.Slot)',
    '//@   ensures c03_reads: validateResult && err == nil ==> !st_forkdata_err(state) && !st_gvr_err(state) && !epc_proposer_err(epc, old(benv.Slot))',
    '//@   ensures c03_signature: old(benv != nil && epc != nil && epc.ValidatorPubkeyCache != nil && (forall r PcPtr :: {pctrig(r)} pctrig(r) && alloc(r) ==> pc_local(r.pub2idx, r.idx2pub, r.trustedParentCount) && pc_chain(r.parent, r, r.trustedParentCount, r.parent.trustedParentCount, len(r.parent.idx2pub))) && (forall r PcPtr :: {held(r.rwLock)} held(r.rwLock) == 0)) && validateResult && err == nil ==> (exists pk Pub48T :: block_sig_ok(old(benv.ProposerIndex), epc_proposer(epc, old(benv.Slot)), old(benv.ForkDigest), old(benv.BlockRoot), old(benv.Signature), pk, DOMAIN_BEACON_PROPOSER, st_forkdata(state).CurrentVersion, st_gvr(state)))']
# process_slots refuses a target slot that is not after the state's slot
EXTRA['eth2/beacon/common:ProcessSlots'] += [
    '//@   ensures c03_forward: err == nil ==> !st_slot_err(state) && st_slot(state) < slot']
# process_execution_payload's consistency checks (C03): parent hash (bellatrix: once the merge is complete), prev_randao, timestamp
for f in ('bellatrix', 'capella', 'deneb'):
    PROPS['eth2/beacon/%s:ProcessExecutionPayload' % f] = ' C03'
    pl = 'body.ExecutionPayload' if f == 'deneb' else '*executionPayload'
    plf = 'body.ExecutionPayload' if f == 'deneb' else 'executionPayload'
    ex = [
        '//@   ensures c03_randao: spec != nil && spec.SLOTS_PER_EPOCH != 0 && err == nil ==> !st_slot_err(state) && !st_mixes_err(state) && old(%s.PrevRandao) == mix_at(st_mixes(state), st_slot(state) / spec.SLOTS_PER_EPOCH)' % plf,
        '//@   ensures c03_timestamp: spec != nil && spec.SECONDS_PER_SLOT != 0 && err == nil ==> !st_gentime_err(state) && old(%s.Timestamp) == st_slot(state) * spec.SECONDS_PER_SLOT + st_gentime(state)' % plf]
    if f != 'bellatrix':
        ex.append('//@   ensures c03_parent: err == nil ==> !st_exhdr_err_%s(state) && !exhdr_raw_err_%s(st_exhdr_%s(state)) && old(%s.ParentHash) == old(exhdr_raw_%s(st_exhdr_%s(state)).BlockHash)' % (f, f, f, plf, f, f))
    EXTRA['eth2/beacon/%s:ProcessExecutionPayload' % f] += ex
# weigh_justification_and_finalization (C02), observed through the state setters (ghost records)
PROPS['eth2/beacon/phase0:ProcessEpochJustification'] = ' C02'
_J = 'old(data.CurrentEpoch)'
_PREM = 'err == nil && spec != nil && state != nil && spec.SLOTS_PER_EPOCH != 0 && old(data.CurrentEpoch) > 1 && old(data.TotalActiveStake) < 4611686018427387904 && old(data.PrevEpochUnslashedTargetStake) < 4611686018427387904 && old(data.CurrEpochUnslashedTargetStake) < 4611686018427387904'
_PJ = 'old(data.PrevEpochUnslashedTargetStake) * 3 >= old(data.TotalActiveStake) * 2'
_CJ = 'old(data.CurrEpochUnslashedTargetStake) * 3 >= old(data.TotalActiveStake) * 2'
_B1 = '((st_jbits(state)[0] * 2) % 16)'
_NB = '(' + _B1 + ' + ite(' + _PJ + ' && !jbit(' + _B1 + ', 1), 2, 0) + ite(' + _CJ + ' && !jbit(' + _B1 + ', 0), 1, 0))'
EXTRA['eth2/beacon/phase0:ProcessEpochJustification'] = [
    '//@   assigns ghost(n_set_prevjust), ghost(set_prevjust), ghost(n_set_curjust), ghost(set_curjust), ghost(n_set_fin), ghost(set_fin), ghost(n_set_jbits), ghost(set_jbits)',
    '//@   ensures c02_genesis: err == nil && old(data.CurrentEpoch) <= 1 ==> n_set_prevjust == old(n_set_prevjust) && n_set_curjust == old(n_set_curjust) && n_set_fin == old(n_set_fin) && n_set_jbits == old(n_set_jbits)',
    '//@   ensures c02_rotate: ' + _PREM + ' ==> n_set_prevjust == old(n_set_prevjust) + 1 && set_prevjust == st_curjust(state)',
    '//@   ensures c02_bits: ' + _PREM + ' ==> n_set_jbits == old(n_set_jbits) + 1 && set_jbits[0] == ' + _NB,
    '//@   ensures c02_justify_current: ' + _PREM + ' && ' + _CJ + ' ==> n_set_curjust == old(n_set_curjust) + 1 && set_curjust.Epoch == ' + _J + ' && set_curjust.Root == roots_at(st_broots(state), ' + _J + ' * spec.SLOTS_PER_EPOCH)',
    '//@   ensures c02_justify_previous: ' + _PREM + ' && !(' + _CJ + ') && ' + _PJ + ' ==> n_set_curjust == old(n_set_curjust) + 1 && set_curjust.Epoch == ' + _J + ' - 1 && set_curjust.Root == roots_at(st_broots(state), (' + _J + ' - 1) * spec.SLOTS_PER_EPOCH)',
    '//@   ensures c02_justify_none: ' + _PREM + ' && !(' + _CJ + ') && !(' + _PJ + ') ==> n_set_curjust == old(n_set_curjust)',
    '//@   ensures c02_fin_4: ' + _PREM + ' && st_prevjust(state).Epoch < 4611686018427387904 && st_curjust(state).Epoch < 4611686018427387904 && jbit(set_jbits[0], 0) && jbit(set_jbits[0], 1) && st_curjust(state).Epoch + 1 == ' + _J + ' ==> n_set_fin == old(n_set_fin) + 1 && set_fin == st_curjust(state)',
    '//@   ensures c02_fin_3: ' + _PREM + ' && st_prevjust(state).Epoch < 4611686018427387904 && st_curjust(state).Epoch < 4611686018427387904 && jbit(set_jbits[0], 0) && jbit(set_jbits[0], 1) && jbit(set_jbits[0], 2) && st_curjust(state).Epoch + 2 == ' + _J + ' ==> n_set_fin == old(n_set_fin) + 1 && set_fin == st_curjust(state)',
    '//@   ensures c02_fin_2: ' + _PREM + ' && st_prevjust(state).Epoch < 4611686018427387904 && st_curjust(state).Epoch < 4611686018427387904 && !(jbit(set_jbits[0], 0) && jbit(set_jbits[0], 1) && st_curjust(state).Epoch + 1 == ' + _J + ') && !(jbit(set_jbits[0], 0) && jbit(set_jbits[0], 1) && jbit(set_jbits[0], 2) && st_curjust(state).Epoch + 2 == ' + _J + ') && jbit(set_jbits[0], 1) && jbit(set_jbits[0], 2) && (st_prevjust(state).Epoch + 2 == ' + _J + ' || (jbit(set_jbits[0], 3) && st_prevjust(state).Epoch + 3 == ' + _J + ')) ==> n_set_fin == old(n_set_fin) + 1 && set_fin == st_prevjust(state)',
    '//@   ensures c02_fin_none: ' + _PREM + ' && st_prevjust(state).Epoch < 4611686018427387904 && st_curjust(state).Epoch < 4611686018427387904 && !(jbit(set_jbits[0], 0) && jbit(set_jbits[0], 1) && st_curjust(state).Epoch + 1 == ' + _J + ') && !(jbit(set_jbits[0], 0) && jbit(set_jbits[0], 1) && jbit(set_jbits[0], 2) && st_curjust(state).Epoch + 2 == ' + _J + ') && !(jbit(set_jbits[0], 1) && jbit(set_jbits[0], 2) && st_prevjust(state).Epoch + 2 == ' + _J + ') && !(jbit(set_jbits[0], 1) && jbit(set_jbits[0], 2) && jbit(set_jbits[0], 3) && st_prevjust(state).Epoch + 3 == ' + _J + ') ==> n_set_fin == old(n_set_fin)']
# process_inactivity_updates (C02): every eligible validator's score becomes the spec's function of its old score; no other score changes
PROPS['eth2/beacon/altair:ProcessInactivityUpdates'] = ' C02'
_E = 'attesterData.EligibleIndices'
_IP0 = ('old(spec != nil && attesterData != nil && state != nil && attesterData.CurrEpoch != 0 && st_fin(state).Epoch <= attesterData.PrevEpoch'
        ' && spec.INACTIVITY_SCORE_BIAS < 4294967296 && spec.INACTIVITY_SCORE_RECOVERY_RATE < 4294967296'
        ' && (forall i, j :: {%s[i], %s[j]} 0 <= i && i < j && j < len(%s) ==> %s[i] != %s[j])'
        ' && (forall k :: {score_at(n_set_score, st_inact(state), k)} score_at(n_set_score, st_inact(state), k) < 4611686018427387904))') % (_E, _E, _E, _E, _E)
_IPREM = 'err == nil && ' + _IP0
_LEAK = '(attesterData.PrevEpoch - st_fin(state).Epoch > spec.MIN_EPOCHS_TO_INACTIVITY_PENALTY)'
def _istep(e, ver):
    return ('inact_step(score_at(%s, st_inact(state), %s), !attesterData.Flats[%s].Slashed && attesterData.PrevParticipation[%s] & 2 != 0, %s, spec.INACTIVITY_SCORE_BIAS, spec.INACTIVITY_SCORE_RECOVERY_RATE)'
            % (ver, e, e, e, _LEAK))
EXTRA['eth2/beacon/altair:ProcessInactivityUpdates'] = [
    '//@   assigns ghost(n_set_score)',
    '//@   opt rangeindex=on',
    '//@   ensures c02_genesis: err == nil && old(attesterData.CurrEpoch) == 0 ==> n_set_score == old(n_set_score)',
    '//@   ensures c02_scores: ' + _IPREM + ' ==> (forall j :: {%s[j]} 0 <= j && j < len(%s) ==> score_at(n_set_score, st_inact(state), %s[j]) == old(%s))' % (_E, _E, _E, _istep(_E + '[j]', 'n_set_score')),
    '//@   ensures c02_others: err == nil ==> (forall k :: {score_at(n_set_score, st_inact(state), k)} (forall j :: {%s[j]} 0 <= j && j < len(%s) ==> %s[j] != k) ==> score_at(n_set_score, st_inact(state), k) == old(score_at(n_set_score, st_inact(state), k)))' % (_E, _E, _E),
    '//@   loop 1',
    '//@     invariant n_set_score >= old(n_set_score) && inactivityScores == st_inact(state) && finalized == st_fin(state)',
    '//@     invariant ' + _IP0 + ' ==> (forall j :: {%s[j]} 0 <= j && j <= rangeindex ==> score_at(n_set_score, st_inact(state), %s[j]) == %s)' % (_E, _E, _istep(_E + '[j]', 'old(n_set_score)')),
    '//@     invariant ' + _IP0 + ' ==> (forall j :: {%s[j]} rangeindex < j && j < len(%s) ==> score_at(n_set_score, st_inact(state), %s[j]) == score_at(old(n_set_score), st_inact(state), %s[j]))' % (_E, _E, _E, _E),
    '//@     invariant forall k :: {score_at(n_set_score, st_inact(state), k)} (forall j :: {%s[j]} 0 <= j && j < len(%s) ==> %s[j] != k) ==> score_at(n_set_score, st_inact(state), k) == score_at(old(n_set_score), st_inact(state), k)' % (_E, _E, _E)]
for f in ('altair', 'bellatrix', 'capella', 'deneb'):
    EXTRA.setdefault('eth2/beacon/%s:BeaconStateView.ProcessEpoch' % f, []).append('//@   assigns ghost(n_set_score)')
for k in ('eth2/beacon/common:ProcessSlots', 'eth2/beacon/common:StateTransition'):
    EXTRA.setdefault(k, []).append('//@   assigns ghost(n_set_score)')
# process_effective_balance_updates (C02, hysteresis): every validator's effective balance afterwards is the spec's function
# of its balance and of the effective balance in the flat snapshot; no other validator's effective balance changes
PROPS['eth2/beacon/phase0:ProcessEffectiveBalanceUpdates'] = ' C02'
_HI = '(spec.EFFECTIVE_BALANCE_INCREMENT / spec.HYSTERESIS_QUOTIENT)'
_DN = '(%s * spec.HYSTERESIS_DOWNWARD_MULTIPLIER)' % _HI
_UP = '(%s * spec.HYSTERESIS_UPWARD_MULTIPLIER)' % _HI
_VJ = 'reg_val(st_vals(state), j)'
def _bal(ver):
    return 'bal_at(%s, st_bals(state), j)' % ver
def _ebnew(ver, ebver):
    b = _bal(ver)
    return ('ite(%s + %s < flats[j].EffectiveBalance || flats[j].EffectiveBalance + %s < %s, min(%s - %s %% spec.EFFECTIVE_BALANCE_INCREMENT, spec.MAX_EFFECTIVE_BALANCE), v_eb_now(%s, %s))'
            % (b, _DN, _UP, b, b, b, ebver, _VJ))
_EP0 = ('old(spec != nil && state != nil && spec.HYSTERESIS_QUOTIENT != 0 && spec.EFFECTIVE_BALANCE_INCREMENT != 0 && %s < 4611686018427387904 && %s < 4611686018427387904'
        ' && bal_len(st_bals(state)) <= len(flats)'
        ' && (forall a, b :: {reg_val(st_vals(state), a), reg_val(st_vals(state), b)} 0 <= a && a < b && b < bal_len(st_bals(state)) ==> reg_val(st_vals(state), a) != reg_val(st_vals(state), b))'
        ' && (forall j :: {flats[j]} 0 <= j && j < len(flats) ==> flats[j].EffectiveBalance < 4611686018427387904)'
        ' && (forall j :: {bal_at(n_set_bal, st_bals(state), j)} bal_at(n_set_bal, st_bals(state), j) < 4611686018427387904))') % (_DN, _UP)
EXTRA['eth2/beacon/phase0:ProcessEffectiveBalanceUpdates'] = [
    '//@   use bal_len_nonneg',
    '//@   assigns ghost(n_biter), ghost(biter_pos), ghost(biter_reg), ghost(n_set_eb)',
    '//@   ensures c02_hysteresis: err == nil && ' + _EP0 + ' ==> (forall j :: {%s} 0 <= j && j < bal_len(st_bals(state)) ==> v_eb_now(n_set_eb, %s) == %s)' % (_VJ, _VJ, _ebnew('old(n_set_bal)', 'old(n_set_eb)')),
    '//@   ensures c02_others: err == nil ==> (forall w ValI :: {v_eb_now(n_set_eb, w)} (forall j :: {%s} 0 <= j && j < bal_len(st_bals(state)) ==> %s != w) ==> v_eb_now(n_set_eb, w) == v_eb_now(old(n_set_eb), w))' % (_VJ, _VJ),
    '//@   ensures c02_balances: n_set_bal == old(n_set_bal)',
    '//@   loop 1',
    '//@     invariant biter_reg == bals && bals == st_bals(state) && vals == st_vals(state) && fnid(balIterNext) == n_biter && i == biter_pos && 0 <= i && i <= bal_len(bals) && n_set_bal == old(n_set_bal) && n_set_eb >= old(n_set_eb)',
    '//@     invariant ' + _EP0 + ' ==> (forall j :: {%s} 0 <= j && j < i ==> v_eb_now(n_set_eb, %s) == %s)' % (_VJ, _VJ, _ebnew('old(n_set_bal)', 'old(n_set_eb)')),
    '//@     invariant ' + _EP0 + ' ==> (forall j :: {%s} i <= j && j < bal_len(st_bals(state)) ==> v_eb_now(n_set_eb, %s) == v_eb_now(old(n_set_eb), %s))' % (_VJ, _VJ, _VJ),
    '//@     invariant forall w ValI :: {v_eb_now(n_set_eb, w)} (forall j :: {%s} 0 <= j && j < bal_len(st_bals(state)) ==> %s != w) ==> v_eb_now(n_set_eb, w) == v_eb_now(old(n_set_eb), w)' % (_VJ, _VJ)]
_EG = '//@   assigns ghost(n_biter), ghost(biter_pos), ghost(biter_reg), ghost(n_set_eb)'
for f in ('phase0', 'altair', 'bellatrix', 'capella', 'deneb'):
    EXTRA.setdefault('eth2/beacon/%s:BeaconStateView.ProcessEpoch' % f, []).append(_EG)
for k in ('eth2/beacon/common:ProcessSlots', 'eth2/beacon/common:StateTransition'):
    EXTRA.setdefault(k, []).append(_EG)
# process_bls_to_execution_change (C03: index, BLS prefix, pubkey hash, signature under the genesis fork version; C01: the new credentials)
PROPS['eth2/beacon/capella:ProcessBLSToExecutionChange'] = ' C03 C01'
_CH = 'old(op.BLSToExecutionChange)'
_CV = 'reg_val(st_vals(state), %s.ValidatorIndex)' % _CH
_WG = '//@   assigns ghost(n_set_wcred), ghost(set_wcred_v), ghost(set_wcred_val)'
EXTRA['eth2/beacon/capella:ProcessBLSToExecutionChange'] = [
    _WG,
    '//@   ensures c03_index: err == nil && state != nil && op != nil ==> !st_vals_err(state) && !reg_len_err(st_vals(state)) && %s.ValidatorIndex < reg_len(st_vals(state))' % _CH,
    '//@   ensures c03_bls_prefix: err == nil && state != nil && op != nil ==> v_wcred(%s)[0] == 0' % _CV,
    '//@   ensures c03_pubkey_hash: err == nil && state != nil && op != nil ==> (forall k :: 1 <= k && k < 32 ==> v_wcred(%s)[k] == sha256(seq(%s.FromBLSPubKey))[k])' % (_CV, _CH),
    '//@   ensures c03_signature: err == nil && state != nil && op != nil && spec != nil ==> !st_gvr_err(state) && pub_valid(%s.FromBLSPubKey) && sig_valid(old(op.Signature)) && bls_ok(%s.FromBLSPubKey, seq(signing_root(blschg_root(%s), compute_domain(common.DOMAIN_BLS_TO_EXECUTION_CHANGE, spec.GENESIS_FORK_VERSION, st_gvr(state)))), old(op.Signature))' % (_CH, _CH, _CH),
    '//@   ensures c01_credentials: err == nil && state != nil && op != nil ==> n_set_wcred == old(n_set_wcred) + 1 && set_wcred_v == %s && set_wcred_val[0] == 1 && (forall k :: 1 <= k && k < 12 ==> set_wcred_val[k] == 0) && (forall k :: 12 <= k && k < 32 ==> set_wcred_val[k] == %s.ToExecutionAddress[k - 12])' % (_CV, _CH)]
EXTRA.setdefault('eth2/beacon/capella:ProcessBLSToExecutionChanges', []).append(_WG)
for f in ('capella', 'deneb'):
    EXTRA.setdefault('eth2/beacon/%s:BeaconStateView.ProcessBlock' % f, []).append(_WG)
for k in ('eth2/beacon/common:PostSlotTransition', 'eth2/beacon/common:StateTransition'):
    EXTRA.setdefault(k, []).append(_WG)
# get_flag_index_deltas / get_inactivity_penalty_deltas (C02, altair on)
PROPS['eth2/beacon/altair:ComputeFlagDeltas'] = ' C02'
PROPS['eth2/beacon/altair:ComputeInactivityPenaltyDeltas'] = ' C02'
_AE = 'attesterData.EligibleIndices'
_AF = 'attesterData.Flats'
_AP = 'attesterData.PrevParticipation'
_INC = 'spec.EFFECTIVE_BALANCE_INCREMENT'
_FP0 = ('old(spec != nil && epc != nil && attesterData != nil && epc.PreviousEpoch != nil && len(%s) < 4611686018427387904 && ((epc.TotalActiveStake / spec.EFFECTIVE_BALANCE_INCREMENT) * 64) %% 18446744073709551616 != 0'
        ' && (forall i, j :: {%s[i], %s[j]} 0 <= i && i < j && j < len(%s) ==> %s[i] != %s[j])'
        ' && (forall j :: {%s[j]} 0 <= j && j < len(%s) ==> %s[j] < len(%s)))') % (_AF, _AE, _AE, _AE, _AE, _AE, _AE, _AE, _AE, _AF)
_UPB = 'max(part_sum(%s, %s, epc.PreviousEpoch.ActiveIndices, flag, len(epc.PreviousEpoch.ActiveIndices)), %s)' % (_AF, _AP, _INC)
_BRPI = '(mul64(%s, spec.BASE_REWARD_FACTOR) / epc.TotalActiveStakeSqRoot)' % _INC
def _base(e):
    return 'mul64(%s[%s].EffectiveBalance / %s, %s)' % (_AF, e, _INC, _BRPI)
def _part(e, flag):
    return '(!%s[%s].Slashed && %s[%s] & %s != 0)' % (_AF, e, _AP, e, flag)
def _frew(e):
    return 'ite(%s && !isInactivityLeak, mul64(mul64(%s, weight), %s / %s) / (((epc.TotalActiveStake / %s) * 64) %% 18446744073709551616), 0)' % (_part(e, 'flag'), _base(e), _UPB, _INC, _INC)
def _fpen(e):
    return 'ite(!%s && flag != 4, mul64(%s, weight) / 64, 0)' % (_part(e, 'flag'), _base(e))
_EJ = _AE + '[j]'
EXTRA['eth2/beacon/altair:ComputeFlagDeltas'] = [
    '//@   opt rangeindex=on',
    '//@   opt mul=opaque',
    '//@   use mul64_range',
    '//@   ensures c02_shape: err == nil ==> r0 != nil && len(r0.Rewards) == old(len(%s)) && len(r0.Penalties) == old(len(%s))' % (_AF, _AF),
    '//@   ensures c02_rewards: err == nil && ' + _FP0 + ' ==> (forall j :: {%s} 0 <= j && j < len(%s) ==> r0.Rewards[%s] == old(%s))' % (_EJ, _AE, _EJ, _frew(_EJ)),
    '//@   ensures c02_penalties: err == nil && ' + _FP0 + ' ==> (forall j :: {%s} 0 <= j && j < len(%s) ==> r0.Penalties[%s] == old(%s))' % (_EJ, _AE, _EJ, _fpen(_EJ)),
    '//@   ensures c02_others: err == nil && ' + _FP0 + ' ==> (forall k :: {r0.Rewards[k]} {r0.Penalties[k]} 0 <= k && k < len(r0.Rewards) && (forall j :: {%s} 0 <= j && j < len(%s) ==> %s != k) ==> r0.Rewards[k] == 0 && r0.Penalties[k] == 0)' % (_EJ, _AE, _EJ),
    '//@   loop 1',
    '//@     invariant out != nil && len(out.Rewards) == len(%s) && len(out.Penalties) == len(%s) && valCount == len(%s)' % (_AF, _AF, _AF),
    '//@     invariant unslashedParticipatingTotalBalance == part_sum(%s, %s, epc.PreviousEpoch.ActiveIndices, flag, rangeindex + 1)' % (_AF, _AP),
    '//@     invariant forall k :: {out.Rewards[k]} {out.Penalties[k]} 0 <= k && k < len(out.Rewards) ==> out.Rewards[k] == 0 && out.Penalties[k] == 0',
    '//@   loop 2',
    '//@     invariant out != nil && len(out.Rewards) == len(%s) && len(out.Penalties) == len(%s)' % (_AF, _AF),
    '//@     invariant unslashedParticipatingIncrements == %s / %s && activeIncrements == epc.TotalActiveStake / %s && baseRewardPerIncrement == %s' % (_UPB, _INC, _INC, _BRPI),
    '//@     invariant ' + _FP0 + ' ==> (forall j :: {%s} 0 <= j && j <= rangeindex ==> out.Rewards[%s] == %s)' % (_EJ, _EJ, _frew(_EJ)),
    '//@     invariant ' + _FP0 + ' ==> (forall j :: {%s} 0 <= j && j <= rangeindex ==> out.Penalties[%s] == %s)' % (_EJ, _EJ, _fpen(_EJ)),
    '//@     invariant ' + _FP0 + ' ==> (forall k :: {out.Rewards[k]} {out.Penalties[k]} 0 <= k && k < len(out.Rewards) && (forall j :: {%s} 0 <= j && j <= rangeindex ==> %s != k) ==> out.Rewards[k] == 0 && out.Penalties[k] == 0)' % (_EJ, _EJ)]
def _ipen(e):
    return 'ite(!%s, mul64(%s[%s].EffectiveBalance, score_at(n_set_score, inactivityScores, %s)) / mul64(spec.INACTIVITY_SCORE_BIAS, inactivityPenaltyQuotient), 0)' % (_part(e, '2'), _AF, e, e)
_IQ0 = ('old(spec != nil && epc != nil && attesterData != nil && inactivityScores != nil && len(%s) < 4611686018427387904 && mul64(spec.INACTIVITY_SCORE_BIAS, inactivityPenaltyQuotient) != 0'
        ' && (forall i, j :: {%s[i], %s[j]} 0 <= i && i < j && j < len(%s) ==> %s[i] != %s[j])'
        ' && (forall j :: {%s[j]} 0 <= j && j < len(%s) ==> %s[j] < len(%s)))') % (_AF, _AE, _AE, _AE, _AE, _AE, _AE, _AE, _AE, _AF)
EXTRA['eth2/beacon/altair:ComputeInactivityPenaltyDeltas'] = [
    '//@   opt rangeindex=on',
    '//@   opt mul=opaque',
    '//@   use mul64_range',
    '//@   ensures c02_shape: err == nil ==> r0 != nil && len(r0.Rewards) == old(len(%s)) && len(r0.Penalties) == old(len(%s)) && n_set_score == old(n_set_score)' % (_AF, _AF),
    '//@   ensures c02_penalties: err == nil && ' + _IQ0 + ' ==> (forall j :: {%s} 0 <= j && j < len(%s) ==> r0.Penalties[%s] == old(%s))' % (_EJ, _AE, _EJ, _ipen(_EJ)),
    '//@   ensures c02_no_rewards: err == nil ==> (forall k :: {r0.Rewards[k]} 0 <= k && k < len(r0.Rewards) ==> r0.Rewards[k] == 0)',
    '//@   ensures c02_others: err == nil && ' + _IQ0 + ' ==> (forall k :: {r0.Penalties[k]} 0 <= k && k < len(r0.Penalties) && (forall j :: {%s} 0 <= j && j < len(%s) ==> %s != k) ==> r0.Penalties[k] == 0)' % (_EJ, _AE, _EJ),
    '//@   loop 1',
    '//@     invariant out != nil && len(out.Rewards) == len(%s) && len(out.Penalties) == len(%s) && n_set_score == old(n_set_score)' % (_AF, _AF),
    '//@     invariant penaltyDenominator == mul64(spec.INACTIVITY_SCORE_BIAS, inactivityPenaltyQuotient)',
    '//@     invariant forall k :: {out.Rewards[k]} 0 <= k && k < len(out.Rewards) ==> out.Rewards[k] == 0',
    '//@     invariant ' + _IQ0 + ' ==> (forall j :: {%s} 0 <= j && j <= rangeindex ==> out.Penalties[%s] == %s)' % (_EJ, _EJ, _ipen(_EJ)),
    '//@     invariant ' + _IQ0 + ' ==> (forall k :: {out.Penalties[k]} 0 <= k && k < len(out.Penalties) && (forall j :: {%s} 0 <= j && j <= rangeindex ==> %s != k) ==> out.Penalties[k] == 0)' % (_EJ, _EJ)]
# process_slashings (C02): the correlation penalty of every slashed validator halfway to its withdrawable epoch
PROPS['eth2/beacon/phase0:ProcessEpochSlashings'] = ' C02'
_ST = 'max(eb_sum(flats, epc.CurrentEpoch.ActiveIndices, len(epc.CurrentEpoch.ActiveIndices)), spec.EFFECTIVE_BALANCE_INCREMENT)'
_SADJ = 'min(%s, mul64(slash_total(st_slashings(state)), st_fs(state).ProportionalSlashingMultiplier))' % _ST
_SPEN = '(((flats[k].EffectiveBalance / spec.EFFECTIVE_BALANCE_INCREMENT) * 1) * 1)'
def _spen(k):
    return 'mul64(mul64(flats[%s].EffectiveBalance / spec.EFFECTIVE_BALANCE_INCREMENT, %s) / %s, spec.EFFECTIVE_BALANCE_INCREMENT)' % (k, _SADJ, _ST)
def _sbal(k, ver):
    b = 'bal_at(%s, st_bals(state), %s)' % (ver, k)
    return ('ite(flats[%s].Slashed && (epc.CurrentEpoch.Epoch + spec.EPOCHS_PER_SLASHINGS_VECTOR / 2) %% 18446744073709551616 == flats[%s].WithdrawableEpoch, ite(%s >= %s, %s - %s, 0), %s)'
            % (k, k, b, _spen(k), b, _spen(k), b))
_SP0 = 'old(spec != nil && epc != nil && state != nil && epc.CurrentEpoch != nil && len(flats) < 4611686018427387904)'
EXTRA['eth2/beacon/phase0:ProcessEpochSlashings'] = [
    '//@   opt rangeindex=on',
    '//@   opt mul=opaque',
    '//@   use mul64_range',
    '//@   assigns ghost(n_set_bal)',
    '//@   ensures c02_penalties: err == nil && ' + _SP0 + ' ==> !st_bals_err(state) && !st_slashings_err(state) && (forall k :: {bal_at(n_set_bal, st_bals(state), k)} 0 <= k && k < len(flats) ==> bal_at(n_set_bal, st_bals(state), k) == old(%s))' % _sbal('k', 'n_set_bal'),
    '//@   ensures c02_others: err == nil && ' + _SP0 + ' ==> (forall k :: {bal_at(n_set_bal, st_bals(state), k)} k < 0 || k >= len(flats) ==> bal_at(n_set_bal, st_bals(state), k) == old(bal_at(n_set_bal, st_bals(state), k)))',
    '//@   loop 1',
    '//@     invariant totalActiveStake == eb_sum(flats, epc.CurrentEpoch.ActiveIndices, rangeindex + 1) && n_set_bal == old(n_set_bal)',
    '//@   loop 2',
    '//@     invariant 0 <= i && i <= len(flats) && n_set_bal >= old(n_set_bal) && bals == st_bals(state) && slashings == st_slashings(state) && settings == st_fs(state)',
    '//@     invariant totalActiveStake == %s && adjustedTotalSlashingBalance == %s && slashingsEpoch == (epc.CurrentEpoch.Epoch + spec.EPOCHS_PER_SLASHINGS_VECTOR / 2) %% 18446744073709551616' % (_ST, _SADJ),
    '//@     invariant ' + _SP0 + ' ==> (forall k :: {bal_at(n_set_bal, st_bals(state), k)} 0 <= k && k < i ==> bal_at(n_set_bal, st_bals(state), k) == %s)' % _sbal('k', 'old(n_set_bal)'),
    '//@     invariant forall k :: {bal_at(n_set_bal, st_bals(state), k)} k < 0 || k >= i ==> bal_at(n_set_bal, st_bals(state), k) == bal_at(old(n_set_bal), st_bals(state), k)']
_BALG = '//@   assigns ghost(n_set_bal)'
for f in ('phase0', 'altair', 'bellatrix', 'capella', 'deneb'):
    for m in ('ProcessEpoch', 'ProcessBlock'):
        EXTRA.setdefault('eth2/beacon/%s:BeaconStateView.%s' % (f, m), []).append(_BALG)
for k in ('common:ProcessSlots', 'common:StateTransition', 'common:PostSlotTransition', 'altair:ProcessSyncAggregate', 'phase0:ProcessProposerSlashings', 'phase0:ProcessAttesterSlashings',
          'phase0:ProcessAttestations', 'altair:ProcessAttestations', 'deneb:ProcessAttestations', 'phase0:ProcessDeposits', 'capella:ProcessWithdrawals'):
    EXTRA.setdefault('eth2/beacon/' + k, []).append(_BALG)
# phase0 pending attestations (view built from a raw record, append to a ztyp complex list): whatever may reach them lists the ghosts
_PAG = '//@   assigns ghost(n_patt_view), ghost(last_patt_raw), ghost(n_clist_append), ghost(last_clist)'
for k in ('phase0:ProcessAttestations', 'phase0:BeaconStateView.ProcessBlock', 'common:StateTransition', 'common:PostSlotTransition'):
    EXTRA.setdefault('eth2/beacon/' + k, []).append(_PAG)
# participation-flag writes (altair on): whatever may reach process_attestation lists the ghost
_PFG = '//@   assigns ghost(n_set_pflag)'
for f in ('altair', 'bellatrix', 'capella', 'deneb'):
    EXTRA.setdefault('eth2/beacon/%s:BeaconStateView.ProcessBlock' % f, []).append(_PFG)
for k in ('common:StateTransition', 'common:PostSlotTransition', 'altair:ProcessAttestations', 'deneb:ProcessAttestations'):
    EXTRA.setdefault('eth2/beacon/' + k, []).append(_PFG)
# process_withdrawals (C03: the payload carries exactly the expected withdrawals; C01: balances decreased once per withdrawal, sweep cursors advanced)
PROPS['eth2/beacon/capella:ProcessWithdrawals'] = ' C03 C01'
_WS = 'old(n_wd_write), old(n_set_bal), st_vals(state), st_bals(state), st_slot(state) / spec.SLOTS_PER_EPOCH, spec.MAX_EFFECTIVE_BALANCE, st_next_wvi(state), reg_len(st_vals(state))'
_WB = 'min(reg_len(st_vals(state)), spec.MAX_VALIDATORS_PER_WITHDRAWALS_SWEEP)'
_WP = ('old(spec != nil && state != nil && executionPayload != nil && spec.SLOTS_PER_EPOCH != 0 && spec.MAX_WITHDRAWALS_PER_PAYLOAD > 0 && spec.MAX_WITHDRAWALS_PER_PAYLOAD < 4611686018427387904 && st_next_wi(state) < 4611686018427387904 && st_next_wvi(state) < 4611686018427387904 && spec.MAX_VALIDATORS_PER_WITHDRAWALS_SWEEP < 4611686018427387904)')
_PL = 'pl_wds(executionPayload)'
def _wfields(lst, p):
    return ('%s[sw_count(%s, %s)].Index == st_next_wi(state) + sw_count(%s, %s) && %s[sw_count(%s, %s)].ValidatorIndex == sw_idx(st_next_wvi(state), reg_len(st_vals(state)), %s) && %s[sw_count(%s, %s)].Amount == sw_amount(%s, %s) && (forall k :: 0 <= k && k < 20 ==> %s[sw_count(%s, %s)].Address[k] == v_wcred(reg_val(st_vals(state), sw_idx(st_next_wvi(state), reg_len(st_vals(state)), %s)))[12 + k])'
            % (lst, _WS, p, _WS, p, lst, _WS, p, p, lst, _WS, p, _WS, p, lst, _WS, p, p))
EXTRA['eth2/beacon/capella:ProcessWithdrawals'] = [
    '//@   use reg_len_nonneg, val_views_readable',
    '//@   assigns ghost(n_set_bal), ghost(n_set_nwi), ghost(set_nwi), ghost(n_set_nwvi), ghost(set_nwvi)',
    '//@   ensures c03_count: err == nil && ' + _WP + ' ==> len(%s) == min(spec.MAX_WITHDRAWALS_PER_PAYLOAD, sw_count(%s, %s))' % (_PL, _WS, _WB),
    '//@   ensures c03_members_len: err == nil && ' + _WP + ' ==> (forall p :: {sw_count(%s, p)} 0 <= p && p < %s && sw_wd(%s, p) && sw_count(%s, p) < spec.MAX_WITHDRAWALS_PER_PAYLOAD ==> sw_count(%s, p) < len(%s))' % (_WS, _WB, _WS, _WS, _WS, _PL),
    '//@   ensures c03_members_index: err == nil && ' + _WP + ' ==> (forall p :: {sw_count(%s, p)} 0 <= p && p < %s && sw_wd(%s, p) && sw_count(%s, p) < spec.MAX_WITHDRAWALS_PER_PAYLOAD ==> %s[sw_count(%s, p)].Index == st_next_wi(state) + sw_count(%s, p) && %s[sw_count(%s, p)].ValidatorIndex == sw_idx(st_next_wvi(state), reg_len(st_vals(state)), p))' % (_WS, _WB, _WS, _WS, _PL, _WS, _WS, _PL, _WS),
    '//@   ensures c03_members_amount: err == nil && ' + _WP + ' ==> (forall p :: {sw_count(%s, p)} 0 <= p && p < %s && sw_wd(%s, p) && sw_count(%s, p) < spec.MAX_WITHDRAWALS_PER_PAYLOAD ==> %s[sw_count(%s, p)].Amount == sw_amount(%s, p))' % (_WS, _WB, _WS, _WS, _PL, _WS, _WS),
    '//@   ensures c03_members_address: err == nil && ' + _WP + ' ==> (forall p :: {sw_count(%s, p)} 0 <= p && p < %s && sw_wd(%s, p) && sw_count(%s, p) < spec.MAX_WITHDRAWALS_PER_PAYLOAD ==> (forall k :: 0 <= k && k < 20 ==> %s[sw_count(%s, p)].Address[k] == v_wcred(reg_val(st_vals(state), sw_idx(st_next_wvi(state), reg_len(st_vals(state)), p)))[12 + k]))' % (_WS, _WB, _WS, _WS, _PL, _WS),
    '//@   ensures c01_balances: err == nil && ' + _WP + ' ==> n_set_bal == old(n_set_bal) + len(%s)' % _PL,
    '//@   ensures c01_next_index: err == nil && ' + _WP + ' ==> n_set_nwi == old(n_set_nwi) + ite(len(%s) > 0, 1, 0) && (len(%s) > 0 ==> set_nwi == st_next_wi(state) + len(%s))' % (_PL, _PL, _PL),
    '//@   ensures c01_next_validator_once: err == nil && ' + _WP + ' ==> !reg_len_err(st_vals(state)) && n_set_nwvi == old(n_set_nwvi) + 1',
    '//@   ensures c01_next_validator_full: err == nil && ' + _WP + ' && len(%s) == spec.MAX_WITHDRAWALS_PER_PAYLOAD ==> set_nwvi == (%s[len(%s) - 1].ValidatorIndex + 1) %% reg_len(st_vals(state))' % (_PL, _PL, _PL),
    '//@   ensures c01_next_validator_sweep: err == nil && ' + _WP + ' && len(%s) != spec.MAX_WITHDRAWALS_PER_PAYLOAD ==> set_nwvi == (st_next_wvi(state) + spec.MAX_VALIDATORS_PER_WITHDRAWALS_SWEEP) %% reg_len(st_vals(state))' % _PL,
    '//@   loop 1',
    '//@     invariant 0 <= w && w <= len(expectedWithdrawals) && len(expectedWithdrawals) == len(withdrawals) && eqseq(withdrawals, %s) && bals == st_bals(state) && n_set_bal == old(n_set_bal) + w && n_set_nwi == old(n_set_nwi) && n_set_nwvi == old(n_set_nwvi)' % _PL,
    '//@     invariant forall k :: {%s[k]} {expectedWithdrawals[k]} 0 <= k && k < w ==> %s[k].Index == expectedWithdrawals[k].Index && %s[k].ValidatorIndex == expectedWithdrawals[k].ValidatorIndex && %s[k].Amount == expectedWithdrawals[k].Amount && (forall b :: 0 <= b && b < 20 ==> %s[k].Address[b] == expectedWithdrawals[k].Address[b])' % (_PL, _PL, _PL, _PL, _PL)]
EXTRA['eth2/beacon/capella:ProcessWithdrawals'] = [l.replace('%s', '@S@') if False else l for l in EXTRA['eth2/beacon/capella:ProcessWithdrawals']]
for f in ('capella', 'deneb'):
    EXTRA.setdefault('eth2/beacon/%s:BeaconStateView.ProcessBlock' % f, []).append('//@   assigns ghost(n_set_nwi), ghost(set_nwi), ghost(n_set_nwvi), ghost(set_nwvi)')
for k in ('eth2/beacon/common:PostSlotTransition', 'eth2/beacon/common:StateTransition'):
    EXTRA.setdefault(k, []).append('//@   assigns ghost(n_set_nwi), ghost(set_nwi), ghost(n_set_nwvi), ghost(set_nwvi)')
# process_sync_aggregate (C03: aggregate signature of the set bits' keys over the previous slot's block root; C01: participant and proposer rewards)
PROPS['eth2/beacon/altair:ProcessSyncAggregate'] = ' C03 C01'
_SZ = 'spec.SYNC_COMMITTEE_SIZE'
_SBITS = 'old(agg.SyncCommitteeBits)'
_SPREV = 'ite(st_slot(state) == 0, 0, st_slot(state) - 1)'
_SMSG = 'seq(signing_root(roots_at(st_broots(state), %s), state_domain(state, common.DOMAIN_SYNC_COMMITTEE, %s / spec.SLOTS_PER_EPOCH)))' % (_SPREV, _SPREV)
_SQ0 = ('old(spec != nil && epc != nil && state != nil && agg != nil && spec.SLOTS_PER_EPOCH != 0 && spec.SYNC_COMMITTEE_SIZE < 1048576 && epc.CurrentSyncCommittee != nil'
        ' && len(epc.CurrentSyncCommittee.CachedPubkeys) >= spec.SYNC_COMMITTEE_SIZE && len(epc.CurrentSyncCommittee.Indices) >= spec.SYNC_COMMITTEE_SIZE'
        ' && (forall t :: {epc.CurrentSyncCommittee.CachedPubkeys[t]} 0 <= t && t < spec.SYNC_COMMITTEE_SIZE ==> epc.CurrentSyncCommittee.CachedPubkeys[t] != nil))')
_TBR = 'mul64(mul64(spec.EFFECTIVE_BALANCE_INCREMENT, spec.BASE_REWARD_FACTOR) / epc.TotalActiveStakeSqRoot, epc.TotalActiveStake / spec.EFFECTIVE_BALANCE_INCREMENT)'
_PREW = '((((%s * 2) %% 18446744073709551616) / 64) / spec.SLOTS_PER_EPOCH / spec.SYNC_COMMITTEE_SIZE)' % _TBR
_PROPREW = '(((%s * 8) %% 18446744073709551616) / 56)' % _PREW
EXTRA['eth2/beacon/altair:ProcessSyncAggregate'] += [
    '//@   opt mul=opaque',
    '//@   use mul64_range',
    '//@   assigns heap(CachedPubkey.decompressed)',
    '//@   ensures c03_signature: err == nil && ' + _SQ0 + ' ==> !st_slot_err(state) && sig_valid(old(agg.SyncCommitteeSignature)) && (exists pks PubPts :: {bls_agg_ok(pks, %s, old(agg.SyncCommitteeSignature))} bls_agg_ok(pks, %s, old(agg.SyncCommitteeSignature)) && len(pks) == bit_rank(%s, %s) && (forall t :: {bit_rank(%s, t)} 0 <= t && t < %s && bl_bit(%s, t) ==> pks[bit_rank(%s, t)] != nil && pt_bytes(pks[bit_rank(%s, t)]) == old(epc.CurrentSyncCommittee.CachedPubkeys[t].Compressed)))' % (_SMSG, _SMSG, _SBITS, _SZ, _SBITS, _SZ, _SBITS, _SBITS, _SBITS),
    '//@   ensures c01_rewards: err == nil && ' + _SQ0 + ' ==> !st_bals_err(state) && !epc_proposer_err(epc, st_slot(state)) && n_set_bal == old(n_set_bal) + %s + 1 && (forall k :: {bal_at(n_set_bal, st_bals(state), k)} bal_at(n_set_bal, st_bals(state), k) == (let b := sync_bal(old(n_set_bal), st_bals(state), old(epc.CurrentSyncCommittee.Indices), %s, old(%s), k, %s) in ite(k == epc_proposer(epc, st_slot(state)), (b + mul64(old(%s), bit_rank(%s, %s))) %% 18446744073709551616, b)))' % (_SZ, _SBITS, _PREW, _SZ, _PROPREW, _SBITS, _SZ),
    '//@   loop 1',
    '//@     invariant 0 <= i && i <= %s && len(participantPubkeys) == bit_rank(agg.SyncCommitteeBits, i) && len(participantPubkeys) <= i && n_set_bal == old(n_set_bal) && currentSlot == st_slot(state)' % _SZ,
    '//@     invariant ' + _SQ0 + ' ==> (forall t :: {bit_rank(agg.SyncCommitteeBits, t)} 0 <= t && t < i && bl_bit(agg.SyncCommitteeBits, t) ==> 0 <= bit_rank(agg.SyncCommitteeBits, t) && bit_rank(agg.SyncCommitteeBits, t) < len(participantPubkeys) && participantPubkeys[bit_rank(agg.SyncCommitteeBits, t)] != nil && pt_bytes(participantPubkeys[bit_rank(agg.SyncCommitteeBits, t)]) == epc.CurrentSyncCommittee.CachedPubkeys[t].Compressed)',
    '//@   loop 2',
    '//@     invariant 0 <= i && i <= %s && n_set_bal == old(n_set_bal) + i && bals == st_bals(state) && currentSlot == st_slot(state) && len(participantPubkeys) == bit_rank(agg.SyncCommitteeBits, %s)' % (_SZ, _SZ),
    '//@     invariant participantReward == %s && proposerReward == %s' % (_PREW, _PROPREW),
    '//@     invariant ' + _SQ0 + ' ==> (forall k :: {bal_at(n_set_bal, st_bals(state), k)} bal_at(n_set_bal, st_bals(state), k) == sync_bal(old(n_set_bal), st_bals(state), epc.CurrentSyncCommittee.Indices, agg.SyncCommitteeBits, participantReward, k, i))']
# process_registry_updates (C02): ejections through the exit queue, activation eligibility, activations
_RB = '(epc.CurrentEpoch.Epoch + 1 + spec.MAX_SEED_LOOKAHEAD)'
_RL = 'rq_lim(spec.MIN_PER_EPOCH_CHURN_LIMIT, spec.CHURN_LIMIT_QUOTIENT, flats, epc.CurrentEpoch.Epoch)'
_RE = 'rq_end(flats, %s, %s)' % (_RB, _RL)
_RC = 'rq_churn(flats, %s, %s)' % (_RB, _RL)
_RV = 'reg_val(st_vals(state), p)'
_RP0 = ('old(spec != nil && epc != nil && state != nil && epc.CurrentEpoch != nil && spec.CHURN_LIMIT_QUOTIENT != 0 && %s < 4611686018427387904 && len(flats) < 4611686018427387904 && @RE@ < 4611686018427387904 && @RL@ < 4611686018427387904'
        ' && (forall a, b :: {reg_val(st_vals(state), a), reg_val(st_vals(state), b)} 0 <= a && a < b && b < len(flats) ==> reg_val(st_vals(state), a) != reg_val(st_vals(state), b)))') % _RB
_RP0 = _RP0.replace('@RE@', _RE).replace('@RL@', _RL)
_EJC = 'eject_cnt(flats, epc.CurrentEpoch.Epoch, spec.EJECTION_BALANCE, p)'
_EJ = 'registerData.IndicesToEject'
_EL = 'registerData.IndicesToSetActivationEligibility'
for _f in ('phase0', 'deneb'):
    PROPS['eth2/beacon/%s:ProcessEpochRegistryUpdates' % _f] = ' C02'
    EXTRA.setdefault('eth2/beacon/%s:ProcessEpochRegistryUpdates' % _f, [])
    EXTRA['eth2/beacon/%s:ProcessEpochRegistryUpdates' % _f] += [
    '//@   opt rangeindex=on',
    '//@   use ejq_epoch_bound',
    '//@   assigns ghost(n_aelig_write), ghost(n_set_act), ghost(last_set_act_v), ghost(last_set_act_val)',
    '//@   ensures c02_ejected: err == nil && ' + _RP0 + ' ==> (forall p :: {%s} 0 <= p && p < len(flats) && reg_eject(flats[p], old(epc.CurrentEpoch.Epoch), spec.EJECTION_BALANCE) ==> v_exit(n_val_write, %s) == old(ejq_epoch(%s, %s, %s, %s)) && v_wd(n_wd_write, %s) == old(ejq_epoch(%s, %s, %s, %s)) + spec.MIN_VALIDATOR_WITHDRAWABILITY_DELAY)' % (_RV, _RV, _RE, _RC, _RL, _EJC, _RV, _RE, _RC, _RL, _EJC),
    '//@   ensures c02_not_ejected: err == nil && ' + _RP0 + ' ==> (forall p :: {%s} 0 <= p && p < len(flats) && !reg_eject(flats[p], old(epc.CurrentEpoch.Epoch), spec.EJECTION_BALANCE) ==> v_exit(n_val_write, %s) == old(v_exit(n_val_write, %s)) && v_wd(n_wd_write, %s) == old(v_wd(n_wd_write, %s)))' % (_RV, _RV, _RV, _RV, _RV),
    '//@   ensures c02_eligible: err == nil && ' + _RP0 + ' ==> (forall p :: {%s} 0 <= p && p < len(flats) && reg_elig(flats[p], spec.MAX_EFFECTIVE_BALANCE) ==> elig_cnt(flats, spec.MAX_EFFECTIVE_BALANCE, p) >= 0 && v_aelig(n_aelig_write, %s) == (old(epc.CurrentEpoch.Epoch) + 1) %% 18446744073709551616)' % (_RV, _RV),
    '//@   ensures c02_not_eligible: err == nil && ' + _RP0 + ' ==> (forall p :: {%s} 0 <= p && p < len(flats) && !reg_elig(flats[p], spec.MAX_EFFECTIVE_BALANCE) ==> v_aelig(n_aelig_write, %s) == old(v_aelig(n_aelig_write, %s)))' % (_RV, _RV, _RV),
    '//@   ensures c02_activation: err == nil && ' + _RP0 + ' ==> n_set_act >= old(n_set_act) && n_set_act - old(n_set_act) <= maybe_cnt(flats, old(epc.CurrentEpoch.Epoch), len(flats)) && (n_set_act > old(n_set_act) ==> last_set_act_val == old(%s))' % _RB,
    '//@   loop 1',
    '//@     invariant vals == st_vals(state) && n_aelig_write == old(n_aelig_write) && n_set_act == old(n_set_act)',
    '//@     invariant ' + _RP0 + ' ==> registerData != nil && exitEnd == ejq_epoch(%s, %s, %s, rangeindex + 1) && endChurn == ejq_churn(%s, %s, rangeindex + 1) && registerData.ChurnLimit == %s && endChurn <= registerData.ChurnLimit' % (_RE, _RC, _RL, _RC, _RL, _RL),
    '//@     invariant ' + _RP0 + ' ==> (forall j :: {%s[j]} 0 <= j && j <= rangeindex ==> v_exit(n_val_write, reg_val(vals, %s[j])) == ejq_epoch(%s, %s, %s, j) && v_wd(n_wd_write, reg_val(vals, %s[j])) == ejq_epoch(%s, %s, %s, j) + spec.MIN_VALIDATOR_WITHDRAWABILITY_DELAY)' % (_EJ, _EJ, _RE, _RC, _RL, _EJ, _RE, _RC, _RL),
    '//@     invariant forall w ValI :: {v_exit(n_val_write, w)} {v_wd(n_wd_write, w)} (forall j :: {%s[j]} 0 <= j && j <= rangeindex ==> reg_val(vals, %s[j]) != w) ==> v_exit(n_val_write, w) == v_exit(old(n_val_write), w) && v_wd(n_wd_write, w) == v_wd(old(n_wd_write), w)' % (_EJ, _EJ),
    '//@   loop 2',
    '//@     invariant vals == st_vals(state) && n_set_act == old(n_set_act) && eligibilityEpoch == (epc.CurrentEpoch.Epoch + 1) % 18446744073709551616',
    '//@     invariant ' + _RP0 + ' ==> (forall j :: {%s[j]} 0 <= j && j <= rangeindex ==> v_aelig(n_aelig_write, reg_val(vals, %s[j])) == eligibilityEpoch)' % (_EL, _EL),
    '//@     invariant forall w ValI :: {v_aelig(n_aelig_write, w)} (forall j :: {%s[j]} 0 <= j && j <= rangeindex ==> reg_val(vals, %s[j]) != w) ==> v_aelig(n_aelig_write, w) == v_aelig(old(n_aelig_write), w)' % (_EL, _EL),
    '//@   loop 3',
    '//@     invariant n_set_act >= old(n_set_act) && n_set_act - old(n_set_act) <= rangeindex + 1 && (n_set_act > old(n_set_act) ==> last_set_act_val == activationEpoch)']
for f in ('phase0', 'altair', 'bellatrix', 'capella', 'deneb'):
    EXTRA.setdefault('eth2/beacon/%s:BeaconStateView.ProcessEpoch' % f, []).append('//@   assigns ghost(n_aelig_write), ghost(n_set_act), ghost(last_set_act_v), ghost(last_set_act_val)')
for k in ('eth2/beacon/common:ProcessSlots', 'eth2/beacon/common:StateTransition'):
    EXTRA.setdefault(k, []).append('//@   assigns ghost(n_aelig_write), ghost(n_set_act), ghost(last_set_act_v), ghost(last_set_act_val)')
# process_slot (C02): cache the state root (hashed before anything is written), complete the latest header, cache the block root
PROPS['eth2/beacon/common:ProcessSlot'] = ' C02'
_HTR = 'st_htr(state, old(n_set_root + n_set_lhdr))'
EXTRA.setdefault('eth2/beacon/common:ProcessSlot', [])
EXTRA['eth2/beacon/common:ProcessSlot'] += [
    '//@   assigns ghost(n_set_root)',
    '//@   ensures c02_state_root: err == nil && state != nil && st_sroots(state) != st_broots(state) ==> !st_slot_err(state) && !st_sroots_err(state) && n_set_root == old(n_set_root) + 2 && roots_now(n_set_root, st_sroots(state), st_slot(state)) == %s' % _HTR,
    '//@   ensures c02_header_completed: err == nil && state != nil && (forall k :: 0 <= k && k < 32 ==> old(st_latest(state).StateRoot[k]) == 0) ==> n_set_lhdr == old(n_set_lhdr) + 1 && set_lhdr.StateRoot == %s && set_lhdr.Slot == old(st_latest(state).Slot) && set_lhdr.ProposerIndex == old(st_latest(state).ProposerIndex) && set_lhdr.ParentRoot == old(st_latest(state).ParentRoot) && set_lhdr.BodyRoot == old(st_latest(state).BodyRoot)' % _HTR,
    '//@   ensures c02_header_kept: err == nil && state != nil && !(forall k :: 0 <= k && k < 32 ==> old(st_latest(state).StateRoot[k]) == 0) ==> n_set_lhdr == old(n_set_lhdr)',
    '//@   ensures c02_block_root: err == nil && state != nil && st_sroots(state) != st_broots(state) ==> !st_broots_err(state) && roots_now(n_set_root, st_broots(state), st_slot(state)) == header_root(BeaconBlockHeader(old(st_latest(state).Slot), old(st_latest(state).ProposerIndex), old(st_latest(state).ParentRoot), ite((forall k :: 0 <= k && k < 32 ==> old(st_latest(state).StateRoot[k]) == 0), %s, old(st_latest(state).StateRoot)), old(st_latest(state).BodyRoot)))' % _HTR]
for k in ('eth2/beacon/common:ProcessSlots', 'eth2/beacon/common:StateTransition'):
    EXTRA.setdefault(k, []).append('//@   assigns ghost(n_set_root)')
# process_eth1_data (C01): the vote is appended; eth1_data is replaced exactly when the vote's count, the new vote included, exceeds half the voting period
PROPS['eth2/beacon/phase0:ProcessEth1Vote'] = ' C01'
_EPER = '(spec.EPOCHS_PER_ETH1_VOTING_PERIOD * spec.SLOTS_PER_EPOCH)'
EXTRA.setdefault('eth2/beacon/phase0:ProcessEth1Vote', [])
EXTRA['eth2/beacon/phase0:ProcessEth1Vote'] += [
    '//@   use votes_count_le_len',
    '//@   assigns ghost(n_vote_append), ghost(last_vote_append), ghost(n_set_eth1), ghost(set_eth1)',
    '//@   ensures c01_appended: err == nil && state != nil ==> !st_votes_err(state) && n_vote_append == old(n_vote_append) + 1 && last_vote_append == data',
    '//@   ensures c01_majority: err == nil && spec != nil && state != nil && %s < 4611686018427387904 ==> n_set_eth1 == old(n_set_eth1) + ite(votes_count(n_vote_append, st_votes(state), data) * 2 > %s, 1, 0) && (n_set_eth1 > old(n_set_eth1) ==> set_eth1 == data)' % (_EPER, _EPER)]
_E1G = '//@   assigns ghost(n_vote_append), ghost(last_vote_append), ghost(n_set_eth1), ghost(set_eth1)'
for f in ('phase0', 'altair', 'bellatrix', 'capella', 'deneb'):
    EXTRA.setdefault('eth2/beacon/%s:BeaconStateView.ProcessBlock' % f, []).append(_E1G)
for k in ('eth2/beacon/common:PostSlotTransition', 'eth2/beacon/common:StateTransition'):
    EXTRA.setdefault(k, []).append(_E1G)
# the epoch's attester data from altair on (C02): eligible indices, participation lists, unslashed participating balances
PROPS['eth2/beacon/altair:ComputeEpochAttesterData'] = ' C02'
_PP = 'part_raw(st_prevpart(state))'
_CP = 'part_raw(st_curpart(state))'
def _stake(part, act, flag):
    return 'max(part_sum%s(flats, %s, %s, len(%s)), spec.EFFECTIVE_BALANCE_INCREMENT)' % (flag, part, act, act)
_CD0 = ('old(spec != nil && epc != nil && state != nil && epc.PreviousEpoch != nil && epc.CurrentEpoch != nil && len(flats) < 4611686018427387904 && epc.PreviousEpoch.Epoch < 4611686018427387904'
        ' && len(%s) == len(flats) && len(%s) == len(flats)'
        ' && (forall a :: {epc.PreviousEpoch.ActiveIndices[a]} 0 <= a && a < len(epc.PreviousEpoch.ActiveIndices) ==> epc.PreviousEpoch.ActiveIndices[a] < len(flats))'
        ' && (forall a :: {epc.CurrentEpoch.ActiveIndices[a]} 0 <= a && a < len(epc.CurrentEpoch.ActiveIndices) ==> epc.CurrentEpoch.ActiveIndices[a] < len(flats)))') % (_PP, _CP)
def _cinv(x):
    return '//@     invariant ' + _CD0 + ' ==> (' + x + ')'
EXTRA.setdefault('eth2/beacon/altair:ComputeEpochAttesterData', [])
EXTRA['eth2/beacon/altair:ComputeEpochAttesterData'] += [
    '//@   opt rangeindex=on',
    '//@   ensures c02_shape: err == nil && ' + _CD0 + ' ==> r0 != nil && r0.PrevEpoch == old(epc.PreviousEpoch.Epoch) && r0.CurrEpoch == old(epc.CurrentEpoch.Epoch) && eqseq(r0.Flats, flats) && eqseq(r0.PrevParticipation, %s) && eqseq(r0.CurrParticipation, %s)' % (_PP, _CP),
    '//@   ensures c02_eligible: err == nil && ' + _CD0 + ' ==> len(r0.EligibleIndices) == att_elig_cnt(flats, old(epc.PreviousEpoch.Epoch), len(flats)) && (forall p :: {att_elig_cnt(flats, old(epc.PreviousEpoch.Epoch), p)} 0 <= p && p < len(flats) && att_eligible(flats[p], old(epc.PreviousEpoch.Epoch)) ==> 0 <= att_elig_cnt(flats, old(epc.PreviousEpoch.Epoch), p) && att_elig_cnt(flats, old(epc.PreviousEpoch.Epoch), p) < len(r0.EligibleIndices) && r0.EligibleIndices[att_elig_cnt(flats, old(epc.PreviousEpoch.Epoch), p)] == p)',
    '//@   ensures c02_eligible_sorted: err == nil && ' + _CD0 + ' ==> (forall a, b :: {r0.EligibleIndices[a], r0.EligibleIndices[b]} 0 <= a && a < b && b < len(r0.EligibleIndices) ==> r0.EligibleIndices[a] < r0.EligibleIndices[b]) && (forall a :: {r0.EligibleIndices[a]} 0 <= a && a < len(r0.EligibleIndices) ==> r0.EligibleIndices[a] < len(flats) && att_eligible(flats[r0.EligibleIndices[a]], old(epc.PreviousEpoch.Epoch)))',
    '//@   ensures c02_prev_stake: err == nil && ' + _CD0 + ' ==> r0.PrevEpochUnslashedStake.SourceStake == %s && r0.PrevEpochUnslashedStake.TargetStake == %s && r0.PrevEpochUnslashedStake.HeadStake == %s' % (_stake(_PP, 'old(epc.PreviousEpoch.ActiveIndices)', '1'), _stake(_PP, 'old(epc.PreviousEpoch.ActiveIndices)', '2'), _stake(_PP, 'old(epc.PreviousEpoch.ActiveIndices)', '4')),
    '//@   ensures c02_current_target_stake: err == nil && ' + _CD0 + ' ==> r0.CurrEpochUnslashedTargetStake == %s' % _stake(_CP, 'old(epc.CurrentEpoch.ActiveIndices)', '2'),
    '//@   loop 1'] + [_cinv(x) for x in (
        'out != nil && 0 <= i && i <= len(flats) && len(out.EligibleIndices) == att_elig_cnt(flats, prevEpoch, i) && len(out.EligibleIndices) <= i && prevEpoch == epc.PreviousEpoch.Epoch && out.PrevEpoch == prevEpoch && out.CurrEpoch == epc.CurrentEpoch.Epoch && eqseq(out.Flats, flats)',
        'out.PrevEpochUnslashedStake.SourceStake == 0 && out.PrevEpochUnslashedStake.TargetStake == 0 && out.PrevEpochUnslashedStake.HeadStake == 0 && out.CurrEpochUnslashedTargetStake == 0',
        'forall p :: {att_elig_cnt(flats, prevEpoch, p)} 0 <= p && p < i && att_eligible(flats[p], prevEpoch) ==> 0 <= att_elig_cnt(flats, prevEpoch, p) && att_elig_cnt(flats, prevEpoch, p) < len(out.EligibleIndices) && out.EligibleIndices[att_elig_cnt(flats, prevEpoch, p)] == p',
        'forall a :: {out.EligibleIndices[a]} 0 <= a && a < len(out.EligibleIndices) ==> out.EligibleIndices[a] < i && att_eligible(flats[out.EligibleIndices[a]], prevEpoch)',
        'forall a, b :: {out.EligibleIndices[a], out.EligibleIndices[b]} 0 <= a && a < b && b < len(out.EligibleIndices) ==> out.EligibleIndices[a] < out.EligibleIndices[b]')] + [
    '//@   loop 2'] + [_cinv(x) for x in (
        'out != nil && eqseq(prevEpochParticipation, %s) && eqseq(currEpochParticipation, %s) && out.CurrEpochUnslashedTargetStake == 0' % (_PP, _CP),
        'out.PrevEpochUnslashedStake.SourceStake == part_sum1(flats, %s, epc.PreviousEpoch.ActiveIndices, rangeindex + 1)' % _PP,
        'out.PrevEpochUnslashedStake.TargetStake == part_sum2(flats, %s, epc.PreviousEpoch.ActiveIndices, rangeindex + 1)' % _PP,
        'out.PrevEpochUnslashedStake.HeadStake == part_sum4(flats, %s, epc.PreviousEpoch.ActiveIndices, rangeindex + 1)' % _PP)] + [
    '//@   loop 3'] + [_cinv(x) for x in (
        'out != nil && eqseq(currEpochParticipation, %s)' % _CP,
        'out.CurrEpochUnslashedTargetStake == part_sum2(flats, %s, epc.CurrentEpoch.ActiveIndices, rangeindex + 1)' % _CP)]
# process_sync_committee_updates (C02): the committees rotate exactly when the next epoch starts a sync committee period
PROPS['eth2/beacon/altair:ProcessSyncCommitteeUpdates'] = ' C02'
EXTRA.setdefault('eth2/beacon/altair:ProcessSyncCommitteeUpdates', [])
EXTRA['eth2/beacon/altair:ProcessSyncCommitteeUpdates'] += [
    '//@   assigns ghost(n_rotate_sync)',
    '//@   ensures c02_rotation: err == nil && spec != nil && epc != nil && epc.NextEpoch != nil && spec.EPOCHS_PER_SYNC_COMMITTEE_PERIOD != 0 ==> n_rotate_sync == old(n_rotate_sync) + ite(old(epc.NextEpoch.Epoch) % spec.EPOCHS_PER_SYNC_COMMITTEE_PERIOD == 0, 1, 0)']
for f in ('altair', 'bellatrix', 'capella', 'deneb'):
    EXTRA.setdefault('eth2/beacon/%s:BeaconStateView.ProcessEpoch' % f, []).append('//@   assigns ghost(n_rotate_sync)')
for k in ('eth2/beacon/common:ProcessSlots', 'eth2/beacon/common:StateTransition'):
    EXTRA.setdefault(k, []).append('//@   assigns ghost(n_rotate_sync)')
# end-of-epoch resets (C02): when they fire and with which epoch
for n in ('ProcessEth1DataReset', 'ProcessSlashingsReset', 'ProcessRandaoMixesReset', 'ProcessHistoricalRootsUpdate'):
    PROPS['eth2/beacon/phase0:' + n] = ' C02'
EXTRA['eth2/beacon/phase0:ProcessEth1DataReset'] = [
    '//@   assigns ghost(n_eth1_reset)',
    '//@   ensures c02_reset: err == nil && spec != nil && epc != nil && spec.EPOCHS_PER_ETH1_VOTING_PERIOD != 0 ==> n_eth1_reset == old(n_eth1_reset) + ite(old(epc.NextEpoch.Epoch) % spec.EPOCHS_PER_ETH1_VOTING_PERIOD == 0, 1, 0)']
EXTRA['eth2/beacon/phase0:ProcessSlashingsReset'] = [
    '//@   assigns ghost(n_slash_reset), ghost(last_slash_reset)',
    '//@   ensures c02_reset: err == nil ==> n_slash_reset == old(n_slash_reset) + 1 && last_slash_reset == old(epc.NextEpoch.Epoch)']
EXTRA['eth2/beacon/phase0:ProcessRandaoMixesReset'] = [
    '//@   assigns ghost(n_set_mix), ghost(last_set_mix_epoch), ghost(last_set_mix)',
    '//@   ensures c02_reset: err == nil && state != nil ==> !st_mixes_err(state) && n_set_mix == old(n_set_mix) + 1 && last_set_mix_epoch == old(epc.NextEpoch.Epoch) && last_set_mix == mix_at(st_mixes(state), ite(old(epc.NextEpoch.Epoch) == 0, 0, old(epc.NextEpoch.Epoch) - 1))']
EXTRA['eth2/beacon/phase0:ProcessHistoricalRootsUpdate'] = [
    '//@   assigns ghost(n_hist_update)',
    '//@   ensures c02_update: err == nil && spec != nil && spec.SLOTS_PER_EPOCH != 0 && spec.SLOTS_PER_HISTORICAL_ROOT / spec.SLOTS_PER_EPOCH != 0 ==> n_hist_update == old(n_hist_update) + ite(old(epc.NextEpoch.Epoch) % (spec.SLOTS_PER_HISTORICAL_ROOT / spec.SLOTS_PER_EPOCH) == 0, 1, 0)']
_RG = '//@   assigns ghost(n_eth1_reset), ghost(n_slash_reset), ghost(last_slash_reset), ghost(n_set_mix), ghost(last_set_mix_epoch), ghost(last_set_mix), ghost(n_hist_update)'
for f in ('phase0', 'altair', 'bellatrix', 'capella', 'deneb'):
    EXTRA.setdefault('eth2/beacon/%s:BeaconStateView.ProcessEpoch' % f, []).append(_RG)
for k in ('eth2/beacon/common:ProcessSlots', 'eth2/beacon/common:StateTransition'):
    EXTRA.setdefault(k, []).append(_RG)
# process_randao (C03: the reveal is the proposer's signature over the epoch under DOMAIN_RANDAO; C01: mix(epoch) ^= hash(reveal))
PROPS['eth2/beacon/phase0:ProcessRandaoReveal'] = ' C03 C01'
_MG = '//@   assigns ghost(n_set_mix), ghost(last_set_mix_epoch), ghost(last_set_mix)'
EXTRA['eth2/beacon/phase0:ProcessRandaoReveal'] = [
    _MG, '//@   assigns heap(CachedPubkey.decompressed)',
    '//@   ensures c03_reveal: old(spec != nil && spec.SLOTS_PER_EPOCH != 0 && state != nil && epc != nil && epc.ValidatorPubkeyCache != nil && (forall r PcPtr :: {pctrig(r)} pctrig(r) && alloc(r) ==> pc_local(r.pub2idx, r.idx2pub, r.trustedParentCount) && pc_chain(r.parent, r, r.trustedParentCount, r.parent.trustedParentCount, len(r.parent.idx2pub))) && (forall r PcPtr :: {held(r.rwLock)} held(r.rwLock) == 0)) && err == nil ==> (let ep := st_slot(state) / spec.SLOTS_PER_EPOCH in !state_domain_err(state, common.DOMAIN_RANDAO, ep) && sig_valid(reveal) && (exists pk Pub48T :: pub_valid(pk) && bls_ok(pk, seq(signing_root(epoch_root(ep), state_domain(state, common.DOMAIN_RANDAO, ep))), reveal)))',
    '//@   ensures c01_mix: spec != nil && spec.SLOTS_PER_EPOCH != 0 && state != nil && err == nil ==> (let ep := st_slot(state) / spec.SLOTS_PER_EPOCH in n_set_mix == old(n_set_mix) + 1 && last_set_mix_epoch == ep && (forall k :: {last_set_mix[k]} 0 <= k && k < 32 ==> last_set_mix[k] == mix_at(st_mixes(state), ep)[k] ^ sha256(seq(reveal))[k]))']
for f in ('phase0', 'altair', 'bellatrix', 'capella', 'deneb'):
    EXTRA.setdefault('eth2/beacon/%s:BeaconStateView.ProcessBlock' % f, []).append(_MG)
for k in ('eth2/beacon/common:PostSlotTransition', 'eth2/beacon/common:StateTransition'):
    EXTRA.setdefault(k, []).append(_MG)
_LG = '//@   assigns ghost(n_set_lhdr), ghost(set_lhdr)'
for f in ('phase0', 'altair', 'bellatrix', 'capella', 'deneb'):
    EXTRA.setdefault('eth2/beacon/%s:BeaconStateView.ProcessBlock' % f, []).append(_LG)
for k in ('eth2/beacon/common:PostSlotTransition', 'eth2/beacon/common:StateTransition', 'eth2/beacon/common:ProcessSlots', 'eth2/beacon/common:ProcessSlot'):
    EXTRA.setdefault(k, []).append(_LG)
# the per-fork epoch transitions (and what calls them) may record justification / finalization updates
_JG = '//@   assigns ghost(n_set_prevjust), ghost(set_prevjust), ghost(n_set_curjust), ghost(set_curjust), ghost(n_set_fin), ghost(set_fin), ghost(n_set_jbits), ghost(set_jbits)'
for f in ('phase0', 'altair', 'bellatrix', 'capella', 'deneb'):
    EXTRA.setdefault('eth2/beacon/%s:BeaconStateView.ProcessEpoch' % f, []).append(_JG)
for k in ('eth2/beacon/common:ProcessSlots', 'eth2/beacon/common:StateTransition'):
    EXTRA.setdefault(k, []).append(_JG)
# validator-field writes and registry iteration are recorded in ghosts (C01/C02 exit queue): whatever may reach them lists them
_VG = '//@   assigns ghost(n_viter), ghost(viter_pos), ghost(viter_reg), ghost(n_val_write), ghost(n_wd_write), ghost(n_set_exit), ghost(set_exit_v), ghost(set_exit_val), ghost(n_set_wd), ghost(set_wd_v), ghost(set_wd_val)'
for f in ('phase0', 'altair', 'bellatrix', 'capella', 'deneb'):
    for m in ('ProcessEpoch', 'ProcessBlock'):
        EXTRA.setdefault('eth2/beacon/%s:BeaconStateView.%s' % (f, m), []).append(_VG)
for k in ('common:ProcessSlots', 'common:StateTransition', 'common:PostSlotTransition', 'phase0:ProcessEpochRegistryUpdates', 'deneb:ProcessEpochRegistryUpdates',
          'phase0:ProcessVoluntaryExits', 'deneb:ProcessVoluntaryExits', 'phase0:ProcessProposerSlashings', 'phase0:ProcessAttesterSlashings'):
    EXTRA.setdefault('eth2/beacon/' + k, []).append(_VG)
for k in ('eth2/beacon/phase0:ProcessEpochRewardsAndPenalties', 'eth2/beacon/altair:ProcessEpochRewardsAndPenalties'):
    EXTRA.setdefault(k, []).append('//@   assigns ghost(n_biter), ghost(biter_pos), ghost(biter_reg)')
# deposits: index counter and registry growth are recorded in ghosts
_DG = '//@   assigns ghost(n_inc_depidx), ghost(n_add_val), ghost(add_val_pub), ghost(add_val_creds), ghost(add_val_bal)'
for f in ('phase0', 'altair', 'bellatrix', 'capella', 'deneb'):
    EXTRA.setdefault('eth2/beacon/%s:BeaconStateView.ProcessBlock' % f, []).append(_DG)
for k in ('eth2/beacon/common:PostSlotTransition', 'eth2/beacon/common:StateTransition', 'eth2/beacon/phase0:ProcessDeposits'):
    EXTRA.setdefault(k, []).append(_DG)
# fork upgrades record the fork view they build
for k in ('eth2/beacon:StandardUpgradeableBeaconState.UpgradeMaybe', 'eth2/beacon/common:ProcessSlots', 'eth2/beacon/common:StateTransition'):
    EXTRA.setdefault(k, []).append('//@   assigns ghost(n_fork_view), ghost(last_fork_view)')
    EXTRA.setdefault(k, []).append('//@   assigns ghost(n_dhdr_view), ghost(last_dhdr_view)')
sig = re.compile(r'^func (\((\w+) (\*?)(\w+)\) )?(\w+)\((.*)\) (.*) \{$')
out = collections.defaultdict(list)
for root, _, files in os.walk(os.path.join(REPO, 'eth2/beacon')):
    for fn in sorted(files):
        if not fn.endswith('.go') or fn.endswith('_test.go') or fn.startswith('zz_'):
            continue
        lines = open(os.path.join(root, fn)).read().split('\n')
        i = 0
        while i < len(lines):
            l = lines[i]
            if l.startswith('func ') and not l.rstrip().endswith('{'):
                # multi-line signature: join
                j = i
                while not lines[j].rstrip().endswith('{'):
                    j += 1
                l = ' '.join(x.strip() for x in lines[i:j + 1]).replace('( ', '(').replace(', )', ')')
                i = j
            i += 1
            if not l.startswith('func ') or 'context.Context' not in l:
                continue
            m = sig.match(l)
            if not m:
                print('cannot parse', fn, l, file=sys.stderr)
                continue
            _, rname, star, rtype, name, params, results = m.groups()
            pnames = []
            for p in re.split(r',\s*(?![^()]*\))', params):
                p = p.strip()
                if p:
                    pnames.append(p.split(' ')[0])
            ctx = [p for p, full in zip(pnames, re.split(r',\s*(?![^()]*\))', params)) if 'context.Context' in full]
            if not ctx:
                continue
            ctx = ctx[0]
            pnames = [('unused%d' % k if p == '_' else p) for k, p in enumerate(pnames)]
            results = results.strip()
            if results == 'error':
                res = 'err'
            elif results.startswith('('):
                n = len(re.split(r',\s*(?![^()]*\))', results.strip('()')))
                res = '(' + ', '.join(['r%d' % k for k in range(n - 1)] + ['err']) + ')'
            else:
                continue
            pkg = os.path.relpath(root, REPO)
            key = (rtype + '.' if rtype else '') + name
            full = pkg + ':' + key
            head = '//@ func ' + (('(%s %s%s) ' % (rname, star, rtype)) if rtype else '') + name + '(' + ', '.join(pnames) + ') ' + res
            b = [head, '//@   property C18' + PROPS.get(full, ''), '//@   panics off', '//@   requires %s != nil' % ctx,
                 '//@   opt weakcalls', '//@   opt inline=closures', '//@   assigns anything, ghost(ctx_t), ghost(ctx_seen)']
            if full not in NO_CANCELLED:
                b.append('//@   ensures cancelled: ctx_cancelled(%s, old(ctx_t)) ==> err != nil' % ctx)
            b += ['//@   ensures surfaced: !old(ctx_seen) && ctx_seen ==> err != nil',
                  '//@   ensures polled: err == nil && ctx_t > old(ctx_t) ==> !ctx_cancelled(%s, old(ctx_t))' % ctx,
                  '//@   ensures time: ctx_t >= old(ctx_t)',
                  '//@   loop *',
                  '//@     invariant ctx_t >= old(ctx_t) && (old(ctx_seen) || !ctx_seen)',
                  '//@     invariant ctx_t > old(ctx_t) ==> !ctx_cancelled(%s, old(ctx_t))' % ctx]
            b += EXTRA.get(full, [])
            out[pkg].append('\n'.join(b))
BEGIN, END = '// BEGIN C18 generated (tools/gen_c18.py in /verif)', '// END C18 generated'
for pkg, blocks in out.items():
    path = os.path.join(REPO, pkg, 'zz_verif_contracts.go')
    if os.path.exists(path):
        s = open(path).read()
    else:
        s = '//go:build verif\n\npackage %s\n\n// Contracts for govc (see /verif/DESIGN.md). Comment-only: no declarations.\n' % (os.path.basename(pkg) if pkg != 'eth2/beacon' else 'beacon')
    if BEGIN in s:
        s = s[:s.index(BEGIN)] + s[s.index(END) + len(END):]
    s = s.rstrip('\n') + '\n\n' + BEGIN + '\n// cancelled: a context cancelled before the call makes it fail; surfaced: a cancellation observed by a poll\n// during the call makes it fail; polled: success after a poll means the context was not cancelled at entry.\n\n' + '\n\n'.join(blocks) + '\n\n' + END + '\n'
    open(path, 'w').write(s)
    print(pkg, len(blocks))
