#!/bin/sh
# selftest/mk.sh <prop> <name> <file> <sed-expr>: make a mutant patch from a sed edit of a /repo file (as committed at HEAD)
set -e
prop=$1; name=$2; file=$3; expr=$4
tmp=$(mktemp -d)
mkdir -p "$tmp/a/$(dirname $file)" "$tmp/b/$(dirname $file)"
git -C /repo show HEAD:$file > $tmp/a/$file
sed "$expr" $tmp/a/$file > $tmp/b/$file
if cmp -s $tmp/a/$file $tmp/b/$file; then echo "sed expression changed nothing: $name" >&2; rm -rf $tmp; exit 1; fi
mkdir -p /verif/selftest/$prop
(cd $tmp && diff -u a/$file b/$file > /verif/selftest/$prop/$name.patch) || true
rm -rf $tmp
echo "wrote selftest/$prop/$name.patch"
