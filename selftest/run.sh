#!/bin/sh
# ./selftest/run.sh [<prop>|all]: every must-fail patch must make the property check report a VIOLATION.
# Mutants run 4 at a time, each in its own scratch copy of /repo (removed afterwards).
cd "$(dirname "$0")/.."
export GOFLAGS=-mod=mod GOPROXY=off GOSUMDB=off GOTOOLCHAIN=local CGO_ENABLED=0
want="${1:-all}"
scratch="${VERIF_SCRATCH:-/var/tmp/verif-scratch.$$}"
one() {
  p=$1; prop=$(basename $(dirname $p)); d="$scratch/$(echo $p | tr '/.' '__')"
  mkdir -p "$d"
  rsync -a --exclude .git /repo/ "$d/repo/"
  if ! (cd "$d/repo" && patch -s -p1 < "/verif/$p"); then echo "SELFTEST-ERROR $p does not apply"; rm -rf "$d"; return; fi
  # first only the functions defined in the files the patch touches (a caller is checked against the callee's
  # contract, not its body, so that is where a violation has to show); the whole property if that finds nothing
  files=$(grep '^+++ ' "/verif/$p" | sed 's/^+++ [ab]\///; s/\t.*//' | tr '\n' ',' | sed 's/,$//')
  out=$(./bin/govc check -repo "$d/repo" -spec /verif/spec -prop $prop -tier quick -evidence "$d/ev.json" -known /verif/known_findings.json -replay "$d/replay" -noreplay -onlyfiles "$files" 2>&1)
  rc=$?
  if ! { [ $rc -eq 1 ] && echo "$out" | grep -q "^VIOLATION property=$prop"; }; then
    out=$(./bin/govc check -repo "$d/repo" -spec /verif/spec -prop $prop -tier quick -evidence "$d/ev.json" -known /verif/known_findings.json -replay "$d/replay" -noreplay 2>&1)
    rc=$?
  fi
  # a mutant that does not compile is a defect of the corpus, not a verdict
  if echo "$out" | grep -q "ENGINE-ERROR: load failed"; then echo "SELFTEST-ERROR $p does not compile"; rm -rf "$d"; return; fi
  if [ $rc -eq 1 ] && echo "$out" | grep -q "^VIOLATION property=$prop"; then
    echo "caught   $p: $(echo "$out" | grep '^VIOLATION' | head -1 | sed 's/.*obligation=//')"
  else
    echo "MISSED   $p (exit $rc)"
  fi
  rm -rf "$d"
}
if [ "$1" = "--one" ]; then scratch=$3; one "$2"; exit 0; fi
trap 'rm -rf "$scratch"' EXIT
mkdir -p "$scratch"
list=""
for dir in selftest/C*; do
  prop=$(basename $dir)
  [ "$want" != "all" ] && [ "$want" != "quick" ] && [ "$want" != "thorough" ] && [ "$want" != "$prop" ] && continue
  for p in $dir/*.patch; do
    [ -f "$p" ] || continue
    # SELFTEST_MATCH=<regexp>: only the patches whose path matches
    if [ -n "$SELFTEST_MATCH" ] && ! echo "$p" | grep -Eq "$SELFTEST_MATCH"; then continue; fi
    list="$list $p"
  done
done
res="$scratch/results.txt"
echo $list | tr ' ' '\n' | xargs -P 4 -I{} sh "$0" --one {} "$scratch" > "$res"
sort "$res"
n=$(echo $list | wc -w)
bad=$(grep -c -v '^caught' "$res")
got=$(grep -c '^caught' "$res")
fail=0; [ "$bad" -ne 0 ] && fail=1; [ "$got" -ne "$n" ] && fail=1
echo "selftest: $n mutants, fail=$fail"
exit $fail
