#!/bin/sh
# ./selftest/run.sh [<prop>|all]: every must-fail patch must make the property check report a VIOLATION.
cd "$(dirname "$0")/.."
export GOFLAGS=-mod=mod GOPROXY=off GOSUMDB=off GOTOOLCHAIN=local CGO_ENABLED=0
want="${1:-all}"
scratch="${VERIF_SCRATCH:-/var/tmp/verif-scratch.$$}"
fail=0; n=0
trap 'rm -rf "$scratch"' EXIT
for dir in selftest/C*; do
  prop=$(basename $dir)
  [ "$want" != "all" ] && [ "$want" != "quick" ] && [ "$want" != "thorough" ] && [ "$want" != "$prop" ] && continue
  for p in $dir/*.patch; do
    [ -f "$p" ] || continue
    n=$((n+1))
    rm -rf "$scratch"; mkdir -p "$scratch"
    rsync -a --exclude .git /repo/ "$scratch/repo/"
    if ! (cd "$scratch/repo" && patch -s -p1 < "/verif/$p"); then echo "SELFTEST-ERROR $p does not apply"; fail=1; continue; fi
    if ! (cd "$scratch/repo" && go build ./... 2>"$scratch/build.log"); then echo "SELFTEST-ERROR $p does not compile"; fail=1; continue; fi
    out=$(./bin/govc check -repo "$scratch/repo" -spec /verif/spec -prop $prop -tier quick -evidence "$scratch/ev.json" -known /verif/known_findings.json -replay "$scratch/replay" 2>&1)
    rc=$?
    if [ $rc -eq 1 ] && echo "$out" | grep -q "^VIOLATION property=$prop"; then
      echo "caught   $p: $(echo "$out" | grep '^VIOLATION' | head -1 | sed 's/.*obligation=//')"
    else
      echo "MISSED   $p (exit $rc)"; fail=1
    fi
  done
done
echo "selftest: $n mutants, fail=$fail"
exit $fail
