#!/bin/sh
# Build the verifier offline from files on disk only.
set -e
cd "$(dirname "$0")"
export GOFLAGS=-mod=mod GOPROXY=off GOSUMDB=off GOTOOLCHAIN=local CGO_ENABLED=0
mkdir -p bin evidence replay
go build -o bin/govc ./cmd/govc
for s in z3 z3-new cvc5; do
  command -v $s >/dev/null || { echo "missing solver $s" >&2; exit 1; }
done
echo "setup ok"
