#!/bin/sh
# Run every claimed check (quick) and report; used before committing evidence.
cd "$(dirname "$0")"
rc=0
for id in $(python3 -c "import json;print(' '.join(c['property_id'] for c in json.load(open('MANIFEST.json'))['checks']))"); do
  out=$(./check $id quick 2>&1); r=$?
  echo "$out" | tail -1
  [ $r -ne 0 ] && { echo "$out" | grep VIOLATION | head -5; rc=1; }
done
exit $rc
