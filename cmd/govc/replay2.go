package main

// Replay input construction: the solver model is turned into a Go object
// graph (pointers, structs, arrays, slices) plus scripted fakes for
// interface-typed values whose methods the function calls through contracts.

import (
	"fmt"
	"go/types"
	"math/big"
	"sort"
	"strings"
)

type IfaceCall struct {
	Method  string
	Results []Val
	Guard   string
}

type rnode struct {
	kind    string // scalar ptr iface struct array slice func skip
	t       types.Type
	obs     int
	fields  []*rnode
	fnames  []string
	elems   []*rnode
	pointee *rnode
}

type rbuilder struct {
	g       *Gen
	fe      *FnEnc
	s       *Sess
	pkg     *types.Package
	q       types.Qualifier
	obs     []Obs
	imports map[string]bool
	params  []*rnode
	calls   [][]*rnode // per iface call: result plans
	fakes   map[string]*types.Named
	nv      int
}

func newRBuilder(g *Gen, fe *FnEnc) *rbuilder {
	pkg := fe.fn.Pkg.Pkg
	return &rbuilder{g: g, fe: fe, s: fe.s, pkg: pkg, q: qualifier(pkg), imports: map[string]bool{}, fakes: map[string]*types.Named{}}
}

func (rb *rbuilder) addObs(term string, t types.Type, label string) int {
	rb.obs = append(rb.obs, Obs{GoLval: label, Term: term, Type: t})
	return len(rb.obs) - 1
}

func (rb *rbuilder) canSet(st *types.Struct, i int, owner types.Type) bool {
	f := st.Field(i)
	if f.Exported() {
		return true
	}
	return f.Pkg() == rb.pkg
}

// plan registers the observations needed to rebuild a value of type t whose SMT term is `term`.
func (rb *rbuilder) plan(term string, t types.Type, depth int, label string) *rnode {
	s := rb.s
	n := &rnode{t: t, kind: "skip"}
	if depth > 4 {
		return n
	}
	switch u := types.Unalias(t).Underlying().(type) {
	case *types.Basic:
		if u.Info()&(types.IsInteger|types.IsBoolean) != 0 {
			n.kind = "scalar"
			n.obs = rb.addObs(term, t, label)
		}
	case *types.Struct:
		n.kind = "struct"
		sn := s.sortOf(t)
		for i := 0; i < u.NumFields(); i++ {
			if !rb.canSet(u, i, t) {
				continue
			}
			ft := u.Field(i).Type()
			n.fields = append(n.fields, rb.plan("("+fieldAcc(sn, u, i)+" "+term+")", ft, depth+1, label+"."+u.Field(i).Name()))
			n.fnames = append(n.fnames, u.Field(i).Name())
		}
	case *types.Array:
		if u.Len() <= 64 {
			n.kind = "array"
			for k := int64(0); k < u.Len(); k++ {
				n.elems = append(n.elems, rb.plan(s.arrSelect(u, term, fmt.Sprint(k)), u.Elem(), depth+1, fmt.Sprintf("%s[%d]", label, k)))
			}
		}
	case *types.Pointer:
		st, ok := structOf(u.Elem())
		if !ok {
			return n
		}
		n.kind = "ptr"
		n.obs = rb.addObs(term, t, label)
		sn := s.sortOf(u.Elem())
		pn := &rnode{t: u.Elem(), kind: "struct"}
		for i := 0; i < st.NumFields(); i++ {
			if !rb.canSet(st, i, u.Elem()) {
				continue
			}
			k := "H_" + sn + "_" + st.Field(i).Name()
			if _, ok := s.heapSort[k]; !ok {
				continue
			}
			pn.fields = append(pn.fields, rb.plan("(select "+k+"_0 "+term+")", st.Field(i).Type(), depth+1, label+"."+st.Field(i).Name()))
			pn.fnames = append(pn.fnames, st.Field(i).Name())
		}
		n.pointee = pn
	case *types.Interface:
		n.kind = "iface"
		n.obs = rb.addObs(term, t, label)
	case *types.Slice:
		es := s.sortOf(u.Elem())
		n.kind = "slice"
		n.obs = rb.addObs(s.seqLen(es, term), types.Typ[types.Int], "len("+label+")")
		for k := 0; k < 6; k++ {
			n.elems = append(n.elems, rb.plan(fmt.Sprintf("(select %s %d)", s.seqArr(es, term), k), u.Elem(), depth+1, fmt.Sprintf("%s[%d]", label, k)))
		}
	case *types.Map:
		n.kind = "map"
		n.obs = rb.addObs(s.mapPart(s.sortOf(u.Key()), s.sortOf(u.Elem()), "mnil", term), types.Typ[types.Bool], "isnil("+label+")")
	case *types.Signature:
		n.kind = "func"
	}
	return n
}

func (rb *rbuilder) planAll() {
	fe := rb.fe
	for i, p := range fe.fn.Params {
		cn := fe.paramConsts[i].Const
		rb.params = append(rb.params, rb.plan(cn, p.Type(), 0, fmt.Sprintf("a%d", i)))
	}
	for k, ic := range fe.ifaceCalls {
		var rs []*rnode
		for j, r := range ic.Results {
			term := r.Term
			if term == "" {
				// slices/maps created by wrapTerm live in cells
				switch {
				case r.View != nil && r.View.Origin != nil && r.View.Origin.Root == rootCell:
					term = fe.entryCellOrCur(r.View.Origin.Cell)
				case r.Map != nil && r.Map.Origin.Root == rootCell:
					term = fe.entryCellOrCur(r.Map.Origin.Cell)
				}
			}
			if term == "" {
				rs = append(rs, &rnode{t: r.T, kind: "skip"})
				continue
			}
			rs = append(rs, rb.plan(term, r.T, 1, fmt.Sprintf("call%d.%s.r%d", k, ic.Method, j)))
		}
		rb.calls = append(rb.calls, rs)
	}
}

// entryCellOrCur: the value a fresh cell was created with.
func (fe *FnEnc) entryCellOrCur(ck string) string {
	if v, ok := fe.cellInit0[ck]; ok {
		return v
	}
	return ""
}

func (rb *rbuilder) typeStr(t types.Type) string {
	collectImportsDeep(t, rb.pkg, rb.imports)
	return types.TypeString(t, rb.q)
}

func (rb *rbuilder) intVal(vals map[int]string, i int) (*big.Int, bool) {
	v, ok := vals[i]
	if !ok {
		return nil, false
	}
	return modelInt(v)
}

// emit writes Go statements assigning the planned value to lval.
func (rb *rbuilder) emit(b *strings.Builder, n *rnode, lval string, vals map[int]string) {
	switch n.kind {
	case "scalar":
		v, ok := vals[n.obs]
		if !ok {
			return
		}
		if v == "true" || v == "false" {
			fmt.Fprintf(b, "\t%s = %s\n", lval, v)
			return
		}
		x, ok := modelInt(v)
		if !ok {
			return
		}
		if w, signed, ok := intInfo(n.t); ok {
			x = new(big.Int).Mod(x, pow2(w))
			if signed && x.Cmp(pow2(w-1)) >= 0 {
				x = new(big.Int).Sub(x, pow2(w))
			}
		}
		if x.Sign() == 0 {
			return
		}
		fmt.Fprintf(b, "\t%s = %s(%s)\n", lval, rb.typeStr(n.t), x.String())
	case "struct":
		for i, f := range n.fields {
			rb.emit(b, f, lval+"."+n.fnames[i], vals)
		}
	case "array":
		for k, e := range n.elems {
			rb.emit(b, e, fmt.Sprintf("%s[%d]", lval, k), vals)
		}
	case "ptr":
		x, ok := rb.intVal(vals, n.obs)
		if !ok || x.Sign() == 0 {
			return
		}
		fmt.Fprintf(b, "\t%s = new(%s)\n", lval, rb.typeStr(n.pointee.t))
		rb.emit(b, n.pointee, lval, vals)
	case "iface":
		x, ok := rb.intVal(vals, n.obs)
		if !ok || x.Sign() == 0 {
			return
		}
		ts := types.TypeString(n.t, nil)
		switch {
		case ts == "error":
			fmt.Fprintf(b, "\t%s = fmt.Errorf(\"replay error\")\n", lval)
		case ts == "context.Context":
			rb.imports["context"] = true
			fmt.Fprintf(b, "\t%s = context.Background()\n", lval)
		default:
			if nt, ok := types.Unalias(n.t).(*types.Named); ok {
				name := "zzFake_" + mangle(types.TypeString(nt, nil))
				rb.fakes[name] = nt
				fmt.Fprintf(b, "\t%s = &%s{s: zzs}\n", lval, name)
			}
		}
	case "slice":
		x, ok := rb.intVal(vals, n.obs)
		if !ok || x.Sign() <= 0 {
			return
		}
		ln := int(x.Int64())
		if !x.IsInt64() || ln > 1<<12 {
			ln = 1 << 12
		}
		fmt.Fprintf(b, "\t%s = make(%s, %d)\n", lval, rb.typeStr(n.t), ln)
		for k, e := range n.elems {
			if k < ln {
				rb.emit(b, e, fmt.Sprintf("%s[%d]", lval, k), vals)
			}
		}
	case "map":
		if v, ok := vals[n.obs]; ok && v == "false" {
			fmt.Fprintf(b, "\t%s = make(%s)\n", lval, rb.typeStr(n.t))
		}
	case "func":
		sig := types.Unalias(n.t).Underlying().(*types.Signature)
		var ps, rs []string
		for i := 0; i < sig.Params().Len(); i++ {
			ps = append(ps, fmt.Sprintf("p%d %s", i, rb.typeStr(sig.Params().At(i).Type())))
		}
		for i := 0; i < sig.Results().Len(); i++ {
			rs = append(rs, fmt.Sprintf("r%d %s", i, rb.typeStr(sig.Results().At(i).Type())))
		}
		if !sig.Variadic() {
			fmt.Fprintf(b, "\t%s = func(%s) (%s) { return }\n", lval, strings.Join(ps, ", "), strings.Join(rs, ", "))
		}
	}
}

func collectImportsDeep(t types.Type, self *types.Package, imports map[string]bool) {
	switch u := types.Unalias(t).(type) {
	case *types.Named:
		if p := u.Obj().Pkg(); p != nil && p != self {
			imports[p.Path()] = true
		}
	case *types.Pointer:
		collectImportsDeep(u.Elem(), self, imports)
	case *types.Slice:
		collectImportsDeep(u.Elem(), self, imports)
	case *types.Array:
		collectImportsDeep(u.Elem(), self, imports)
	case *types.Map:
		collectImportsDeep(u.Key(), self, imports)
		collectImportsDeep(u.Elem(), self, imports)
	case *types.Signature:
		for i := 0; i < u.Params().Len(); i++ {
			collectImportsDeep(u.Params().At(i).Type(), self, imports)
		}
		for i := 0; i < u.Results().Len(); i++ {
			collectImportsDeep(u.Results().At(i).Type(), self, imports)
		}
	}
}

// genFakes emits scripted fake implementations of the interfaces met.
func (rb *rbuilder) genFakes(b *strings.Builder) {
	b.WriteString(`
type zzScript struct{ m map[string][][]interface{}; n map[string]int }
func (s *zzScript) add(method string, vals ...interface{}) { s.m[method] = append(s.m[method], vals) }
func (s *zzScript) next(method string) []interface{} {
	k := s.n[method]
	s.n[method] = k + 1
	if k < len(s.m[method]) { return s.m[method][k] }
	return nil
}
`)
	var names []string
	for n := range rb.fakes {
		names = append(names, n)
	}
	sort.Strings(names)
	for _, name := range names {
		nt := rb.fakes[name]
		fmt.Fprintf(b, "type %s struct{ s *zzScript }\n", name)
		ms := types.NewMethodSet(nt)
		for i := 0; i < ms.Len(); i++ {
			fn := ms.At(i).Obj().(*types.Func)
			sig := fn.Type().(*types.Signature)
			var ps, rs []string
			for j := 0; j < sig.Params().Len(); j++ {
				pt := rb.typeStr(sig.Params().At(j).Type())
				if sig.Variadic() && j == sig.Params().Len()-1 {
					pt = "..." + rb.typeStr(sig.Params().At(j).Type().(*types.Slice).Elem())
				}
				ps = append(ps, fmt.Sprintf("p%d %s", j, pt))
			}
			for j := 0; j < sig.Results().Len(); j++ {
				rs = append(rs, fmt.Sprintf("r%d %s", j, rb.typeStr(sig.Results().At(j).Type())))
			}
			fmt.Fprintf(b, "func (f *%s) %s(%s) (%s) {\n", name, fn.Name(), strings.Join(ps, ", "), strings.Join(rs, ", "))
			if sig.Results().Len() > 0 {
				fmt.Fprintf(b, "\tif v := f.s.next(%q); v != nil {\n", fn.Name())
				for j := 0; j < sig.Results().Len(); j++ {
					fmt.Fprintf(b, "\t\tif len(v) > %d && v[%d] != nil { if x, ok := v[%d].(%s); ok { r%d = x } }\n", j, j, j, rb.typeStr(sig.Results().At(j).Type()), j)
				}
				b.WriteString("\t}\n")
			}
			b.WriteString("\treturn\n}\n")
		}
	}
}

func (rb *rbuilder) genTest(o *Obligation, vals map[int]string) (string, string, bool) {
	fe := rb.fe
	fn := fe.fn
	ct := fe.ct
	var body strings.Builder
	var argNames []string
	for i, p := range fn.Params {
		name := fmt.Sprintf("a%d", i)
		argNames = append(argNames, name)
		fmt.Fprintf(&body, "\tvar %s %s\n", name, rb.typeStr(p.Type()))
		rb.emit(&body, rb.params[i], name, vals)
	}
	// scripted results of interface calls, in program order
	for k, ic := range fe.ifaceCalls {
		var vs []string
		for j, rn := range rb.calls[k] {
			vn := fmt.Sprintf("zzr%d_%d", k, j)
			fmt.Fprintf(&body, "\tvar %s %s\n", vn, rb.typeStr(rn.t))
			rb.emit(&body, rn, vn, vals)
			vs = append(vs, vn)
		}
		fmt.Fprintf(&body, "\tzzs.add(%q%s)\n", ic.Method, func() string {
			if len(vs) == 0 {
				return ""
			}
			return ", " + strings.Join(vs, ", ")
		}())
	}
	// names for contract expressions
	vars := map[string]string{}
	off := 0
	if fn.Signature.Recv() != nil {
		off = 1
		if ct.RecvName != "" {
			vars[ct.RecvName] = argNames[0]
		}
	}
	for i, n := range ct.Params {
		vars[n] = argNames[i+off]
	}
	nres := fn.Signature.Results().Len()
	var resNames []string
	for i := 0; i < nres; i++ {
		resNames = append(resNames, fmt.Sprintf("r%d", i))
	}
	// preconditions
	for _, r := range ct.Requires {
		if ge, ok := goExprErr(r.E, vars, ct, fn.Signature.Results(), nil); ok {
			fmt.Fprintf(&body, "\tif !(%s) { fmt.Println(\"REPLAY-NOT-REPRODUCED: model does not satisfy precondition:\", %q); return }\n", ge, r.Src)
		}
	}
	// old(...) snapshots for the postcondition under replay
	var post *Clause
	if strings.HasPrefix(o.Kind, "post") {
		lab := strings.TrimPrefix(o.Name[strings.Index(o.Name, "#")+1:], "post:")
		for i := range ct.Ensures {
			if ct.Ensures[i].Label == lab {
				post = &ct.Ensures[i]
			}
		}
	}
	var postGo string
	postOK := false
	if post != nil {
		pv := map[string]string{}
		for k, v := range vars {
			pv[k] = v
		}
		nold := 0
		okAll := true
		e2 := rewriteOld(post.E, func(inner Expr) Expr {
			ge, ok := goExpr(inner, vars)
			if !ok {
				okAll = false
				return inner
			}
			nold++
			vn := fmt.Sprintf("zzold%d", nold)
			fmt.Fprintf(&body, "\t%s := %s\n\t_ = %s\n", vn, ge, vn)
			pv["@"+vn] = vn
			return &EName{"@" + vn}
		})
		for i, n := range ct.Results {
			rt := fn.Signature.Results().At(i).Type()
			if !types.Identical(rt, types.Universe.Lookup("error").Type()) {
				pv[n] = resNames[i]
			}
		}
		if nres == 1 {
			pv["result"] = resNames[0]
		}
		if okAll {
			postGo, postOK = goExprErr(e2, pv, ct, fn.Signature.Results(), resNames)
		}
	}
	call := ""
	if fn.Signature.Recv() != nil {
		call = fmt.Sprintf("%s.%s(%s)", argNames[0], fn.Name(), strings.Join(argNames[1:], ", "))
	} else {
		call = fmt.Sprintf("%s(%s)", fn.Name(), strings.Join(argNames, ", "))
	}
	body.WriteString("\tpanicked := false\n\tvar pv interface{}\n")
	for i, rn := range resNames {
		fmt.Fprintf(&body, "\tvar %s %s\n", rn, rb.typeStr(fn.Signature.Results().At(i).Type()))
	}
	body.WriteString("\tdone := make(chan struct{})\n\tgo func() {\n\t\tdefer close(done)\n\t\tdefer func() { if r := recover(); r != nil { panicked = true; pv = r } }()\n")
	if nres > 0 {
		fmt.Fprintf(&body, "\t\t%s = %s\n", strings.Join(resNames, ", "), call)
	} else {
		fmt.Fprintf(&body, "\t\t%s\n", call)
	}
	body.WriteString("\t}()\n\tselect {\n\tcase <-done:\n\tcase <-time.After(3 * time.Second):\n\t\tfmt.Println(\"REPLAY-REPRODUCED: the call did not return within 3s (blocked)\")\n\t\treturn\n\t}\n")
	for _, rn := range resNames {
		fmt.Fprintf(&body, "\t_ = %s\n", rn)
	}
	if strings.HasPrefix(o.Kind, "panic") || o.Kind == "nooverflow" || o.Kind == "call.pre" {
		body.WriteString("\tif panicked { fmt.Println(\"REPLAY-REPRODUCED: panic:\", pv); return }\n")
	} else {
		// a panic is not the failure of a postcondition, invariant or frame obligation: it does not replay those
		body.WriteString("\tif panicked { fmt.Println(\"REPLAY-NOT-REPRODUCED: the call panicked before the obligation could be observed:\", pv); return }\n")
	}
	if post != nil {
		if postOK {
			fmt.Fprintf(&body, "\tif !(%s) { fmt.Println(\"REPLAY-REPRODUCED: postcondition violated:\", %q", postGo, post.Src)
			for _, rn := range resNames {
				fmt.Fprintf(&body, ", %s", rn)
			}
			body.WriteString("); return }\n")
		} else {
			body.WriteString("\tfmt.Println(\"REPLAY-NOT-REPRODUCED: postcondition not executable\")\n")
		}
	}
	body.WriteString("\tfmt.Println(\"REPLAY-NOT-REPRODUCED\")\n")

	var fakes strings.Builder
	rb.genFakes(&fakes)
	var hdr strings.Builder
	fmt.Fprintf(&hdr, "package %s\n\nimport (\n\t\"fmt\"\n\t\"math/big\"\n\t\"reflect\"\n\t\"testing\"\n\t\"time\"\n", rb.pkg.Name())
	var imps []string
	for imp := range rb.imports {
		imps = append(imps, imp)
	}
	sort.Strings(imps)
	for _, imp := range imps {
		if imp == "fmt" || imp == "time" || imp == "testing" || imp == "reflect" || imp == "math/big" {
			continue
		}
		fmt.Fprintf(&hdr, "\t%q\n", imp)
	}
	hdr.WriteString(")\n\nvar _ = reflect.DeepEqual\nvar _ = big.NewInt\nvar _ = time.Second\n" + replayHelpers + "\n")
	src := hdr.String() + fakes.String() + "\nfunc TestZZVerifReplay(t *testing.T) {\n\tzzs := &zzScript{m: map[string][][]interface{}{}, n: map[string]int{}}\n\t_ = zzs\n" + body.String() + "}\n"
	return src, "", true
}

// rewriteOld replaces old(e) sub-expressions using f.
func rewriteOld(e Expr, f func(Expr) Expr) Expr {
	switch x := e.(type) {
	case *ECall:
		if x.Fn == "old" && len(x.Args) == 1 {
			return f(x.Args[0])
		}
		if x.Fn == "unchanged" && len(x.Args) == 1 {
			return &EBin{"==", x.Args[0], f(x.Args[0])}
		}
		var as []Expr
		for _, a := range x.Args {
			as = append(as, rewriteOld(a, f))
		}
		return &ECall{x.Fn, as}
	case *EBin:
		return &EBin{x.Op, rewriteOld(x.L, f), rewriteOld(x.R, f)}
	case *EUn:
		return &EUn{x.Op, rewriteOld(x.X, f)}
	case *ESel:
		return &ESel{rewriteOld(x.X, f), x.F}
	case *EIdx:
		return &EIdx{rewriteOld(x.X, f), rewriteOld(x.I, f)}
	}
	return e
}
