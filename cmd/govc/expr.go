package main

// Contract expression language: lexer + Pratt parser.
//
//   e ::= num | true | false | name | e.f | e[i] | e[a:b] | f(e,...) | old(e)
//       | !e | -e | e op e | forall k, j :: [{pat, ...}] e | exists k :: e | (e)
//   op (low to high): <==>  ==>  ||  &&  (== != < <= > >=, chainable)
//                     + - | ^    * / % & << >>

import (
	"fmt"
	"math/big"
	"strings"
)

type Expr interface{}

type (
	ENum  struct{ V *big.Int }
	EBool struct{ V bool }
	EName struct{ Name string }
	EBin  struct {
		Op   string
		L, R Expr
	}
	EUn struct {
		Op string
		X  Expr
	}
	ECall struct {
		Fn   string
		Args []Expr
	}
	ESel struct {
		X Expr
		F string
	}
	EIdx   struct{ X, I Expr }
	ESlice struct{ X, Lo, Hi Expr }
	ELet   struct {
		Name string
		Val  Expr
		Body Expr
	}
	EQuant struct {
		Forall bool
		Vars   []string
		Sorts  []string // optional sort annotation per var ("" = int)
		Pats   [][]Expr
		Body   Expr
	}
)

type etok struct {
	kind string // num, id, op, eof
	s    string
	pos  int
}

func lex(src string) ([]etok, error) {
	var toks []etok
	i := 0
	for i < len(src) {
		c := src[i]
		switch {
		case c == ' ' || c == '\t' || c == '\n':
			i++
		case c >= '0' && c <= '9':
			j := i
			for j < len(src) && (isAlnum(src[j]) || src[j] == '_') {
				j++
			}
			toks = append(toks, etok{"num", strings.ReplaceAll(src[i:j], "_", ""), i})
			i = j
		case isAlpha(c):
			j := i
			for j < len(src) && (isAlnum(src[j]) || src[j] == '_') {
				j++
			}
			toks = append(toks, etok{"id", src[i:j], i})
			i = j
		default:
			ops := []string{"<==>", "==>", "::", "..", ":=", "&&", "||", "==", "!=", "<=", ">=", "<<", ">>", "&^",
				"+", "-", "*", "/", "%", "&", "|", "^", "<", ">", "!", "(", ")", "[", "]", "{", "}", ",", ".", ":", "?"}
			found := false
			for _, op := range ops {
				if strings.HasPrefix(src[i:], op) {
					toks = append(toks, etok{"op", op, i})
					i += len(op)
					found = true
					break
				}
			}
			if !found {
				return nil, fmt.Errorf("bad character %q at %d in %q", c, i, src)
			}
		}
	}
	toks = append(toks, etok{"eof", "", len(src)})
	return toks, nil
}

func isAlpha(c byte) bool { return c == '_' || (c >= 'a' && c <= 'z') || (c >= 'A' && c <= 'Z') }
func isAlnum(c byte) bool { return isAlpha(c) || (c >= '0' && c <= '9') }

type parser struct {
	toks []etok
	p    int
	src  string
}

func ParseExpr(src string) (e Expr, err error) {
	toks, err := lex(src)
	if err != nil {
		return nil, err
	}
	ps := &parser{toks: toks, src: src}
	defer func() {
		if r := recover(); r != nil {
			if pe, ok := r.(parseErr); ok {
				err = fmt.Errorf("%s in %q", string(pe), src)
				return
			}
			panic(r)
		}
	}()
	e = ps.expr(0)
	if ps.peek().kind != "eof" {
		ps.fail("unexpected %q", ps.peek().s)
	}
	return e, nil
}

type parseErr string

func (ps *parser) fail(f string, a ...interface{}) {
	panic(parseErr(fmt.Sprintf(f, a...) + fmt.Sprintf(" at %d", ps.peek().pos)))
}
func (ps *parser) peek() etok { return ps.toks[ps.p] }
func (ps *parser) next() etok { t := ps.toks[ps.p]; ps.p++; return t }
func (ps *parser) isOp(s string) bool {
	t := ps.peek()
	return t.kind == "op" && t.s == s
}
func (ps *parser) expect(s string) {
	if !ps.isOp(s) {
		ps.fail("expected %q, got %q", s, ps.peek().s)
	}
	ps.p++
}

var binPrec = map[string]int{
	"<==>": 1, "==>": 2, "||": 3, "&&": 4,
	"==": 5, "!=": 5, "<": 5, "<=": 5, ">": 5, ">=": 5,
	"+": 6, "-": 6, "|": 6, "^": 6,
	"*": 7, "/": 7, "%": 7, "&": 7, "<<": 7, ">>": 7, "&^": 7,
}

func isCmp(op string) bool { return binPrec[op] == 5 }

func (ps *parser) expr(minPrec int) Expr {
	l := ps.unary()
	for {
		t := ps.peek()
		if t.kind != "op" {
			return l
		}
		prec, ok := binPrec[t.s]
		if !ok || prec < minPrec {
			return l
		}
		ps.p++
		if t.s == "==>" {
			r := ps.expr(prec) // right assoc
			l = &EBin{"==>", l, r}
			continue
		}
		r := ps.expr(prec + 1)
		if isCmp(t.s) {
			// chained comparison a <= b < c
			cur := Expr(&EBin{t.s, l, r})
			last := r
			for ps.peek().kind == "op" && isCmp(ps.peek().s) && minPrec <= 5 {
				op := ps.next().s
				r2 := ps.expr(6)
				cur = &EBin{"&&", cur, &EBin{op, last, r2}}
				last = r2
			}
			l = cur
			continue
		}
		l = &EBin{t.s, l, r}
	}
}

func (ps *parser) unary() Expr {
	t := ps.peek()
	if t.kind == "op" {
		switch t.s {
		case "!", "-", "^":
			ps.p++
			return &EUn{t.s, ps.unary()}
		case "*":
			ps.p++
			return &EUn{"*", ps.unary()}
		case "&":
			ps.p++
			return &EUn{"&", ps.unary()}
		}
	}
	if t.kind == "id" && t.s == "let" {
		ps.p++
		n := ps.next()
		if n.kind != "id" {
			ps.fail("expected name after let")
		}
		if !(ps.peek().kind == "op" && ps.peek().s == "=") {
			// "==" lexes first; accept a single "=" written as ":" "=" or the word "be"
		}
		tk := ps.next()
		if !(tk.kind == "op" && (tk.s == ":=" || tk.s == "=")) && !(tk.kind == "id" && tk.s == "be") {
			ps.fail("expected '=' in let")
		}
		if tk.s == ":" {
			ps.fail("use 'let x := e in body'")
		}
		v := ps.expr(3)
		in := ps.next()
		if !(in.kind == "id" && in.s == "in") {
			ps.fail("expected 'in' in let")
		}
		body := ps.expr(0)
		return &ELet{n.s, v, body}
	}
	if t.kind == "id" && (t.s == "forall" || t.s == "exists") {
		ps.p++
		q := &EQuant{Forall: t.s == "forall"}
		for {
			v := ps.next()
			if v.kind != "id" {
				ps.fail("expected bound variable")
			}
			q.Vars = append(q.Vars, v.s)
			srt := ""
			if ps.peek().kind == "id" { // optional sort: "forall r Root ::"
				srt = ps.next().s
			}
			q.Sorts = append(q.Sorts, srt)
			if ps.isOp(",") {
				ps.p++
				continue
			}
			break
		}
		ps.expect("::")
		for ps.isOp("{") {
			ps.p++
			var pat []Expr
			for {
				pat = append(pat, ps.expr(0))
				if ps.isOp(",") {
					ps.p++
					continue
				}
				break
			}
			ps.expect("}")
			q.Pats = append(q.Pats, pat)
		}
		q.Body = ps.expr(0)
		return q
	}
	return ps.postfix(ps.primary())
}

func (ps *parser) primary() Expr {
	t := ps.next()
	switch t.kind {
	case "num":
		v, ok := new(big.Int).SetString(t.s, 0)
		if !ok {
			ps.fail("bad number %q", t.s)
		}
		return &ENum{v}
	case "id":
		switch t.s {
		case "true":
			return &EBool{true}
		case "false":
			return &EBool{false}
		}
		return &EName{t.s}
	case "op":
		if t.s == "(" {
			e := ps.expr(0)
			ps.expect(")")
			return e
		}
	}
	ps.p--
	ps.fail("unexpected %q", t.s)
	return nil
}

func (ps *parser) postfix(e Expr) Expr {
	for {
		switch {
		case ps.isOp("."):
			ps.p++
			f := ps.next()
			if f.kind != "id" {
				ps.fail("expected field name")
			}
			e = &ESel{e, f.s}
		case ps.isOp("["):
			ps.p++
			if ps.isOp(":") {
				ps.p++
				hi := ps.expr(0)
				ps.expect("]")
				e = &ESlice{e, nil, hi}
				continue
			}
			i := ps.expr(0)
			if ps.isOp(":") {
				ps.p++
				var hi Expr
				if !ps.isOp("]") {
					hi = ps.expr(0)
				}
				ps.expect("]")
				e = &ESlice{e, i, hi}
				continue
			}
			ps.expect("]")
			e = &EIdx{e, i}
		case ps.isOp("("):
			n, ok := e.(*EName)
			if !ok {
				// pkg.Func(...) form
				if s, ok2 := e.(*ESel); ok2 {
					if b, ok3 := s.X.(*EName); ok3 {
						n = &EName{b.Name + "." + s.F}
						ok = true
					}
				}
				if !ok {
					ps.fail("call of non-name")
				}
			}
			ps.p++
			var args []Expr
			if !ps.isOp(")") {
				for {
					args = append(args, ps.expr(0))
					if ps.isOp(",") {
						ps.p++
						continue
					}
					break
				}
			}
			ps.expect(")")
			e = &ECall{n.Name, args}
		default:
			return e
		}
	}
}

func exprString(e Expr) string {
	switch x := e.(type) {
	case *ENum:
		return x.V.String()
	case *EBool:
		return fmt.Sprint(x.V)
	case *EName:
		return x.Name
	case *EBin:
		return "(" + exprString(x.L) + " " + x.Op + " " + exprString(x.R) + ")"
	case *EUn:
		return x.Op + exprString(x.X)
	case *ECall:
		var a []string
		for _, y := range x.Args {
			a = append(a, exprString(y))
		}
		return x.Fn + "(" + strings.Join(a, ", ") + ")"
	case *ESel:
		return exprString(x.X) + "." + x.F
	case *EIdx:
		return exprString(x.X) + "[" + exprString(x.I) + "]"
	case *ESlice:
		lo, hi := "", ""
		if x.Lo != nil {
			lo = exprString(x.Lo)
		}
		if x.Hi != nil {
			hi = exprString(x.Hi)
		}
		return exprString(x.X) + "[" + lo + ":" + hi + "]"
	case *ELet:
		return "let " + x.Name + " := " + exprString(x.Val) + " in " + exprString(x.Body)
	case *EQuant:
		q := "exists"
		if x.Forall {
			q = "forall"
		}
		return q + " " + strings.Join(x.Vars, ", ") + " :: " + exprString(x.Body)
	}
	return "?"
}
