package main

// Values, addresses and the memory model.
//
//  * pointer-to-struct objects live in field-split heaps
//      H_<S>_<field> : (Array Int <fieldsort>)      (ref 0 is nil)
//    pointer-to-non-struct in H__<sort>.
//  * locals whose address is taken, slice/map parameters and fresh
//    slices/maps live in cells (named SMT values).
//  * slices and maps stored inside structs are owned values (Seq_/Map_
//    datatypes); a slice-typed SSA value is a view (origin address, offset,
//    length) that reads and writes through to where it was loaded from.

import (
	"fmt"
	"go/types"
	"math/big"
	"strings"
)

const (
	stField = iota
	stArr   // index into (Array Int E) (Go array)
	stSeq   // index into Seq (slice element)
	stMapV  // value slot of a map entry (key term in Idx)
)

type Step struct {
	Kind  int
	Field int
	Idx   string
	T     types.Type // type of the container this step applies to
}

const (
	rootHeap = iota
	rootCell
	rootGlobal
)

type Addr struct {
	Root  int
	RootT types.Type // type of the object at the root (pointee / cell content)
	Ref   string     // heap: Int term
	Cell  string     // cell / global key
	Steps []Step
	Nil   string // Bool term; "false" when known non-nil
}

func (a *Addr) with(st Step) *Addr {
	b := *a
	b.Steps = append(append([]Step{}, a.Steps...), st)
	return &b
}

type View struct {
	Origin  *Addr // location holding a Seq (or a Go array when IsArray)
	Off     string
	Len     string
	Cap     string // may be ""
	IsArray bool
	Elem    types.Type
	IsStr   bool
	StrTerm string
	NilFlag string // Bool term: slice is nil ("" = unknown -> treated via len)
}

type MapV struct {
	Origin *Addr
	T      *types.Map
}

type Closure struct {
	Fn       interface{} // *ssa.Function
	Bindings []Val
}

type Val struct {
	T       types.Type
	Term    string
	Addr    *Addr
	View    *View
	Map     *MapV
	Tup     []Val
	Fn      interface{} // *ssa.Function | *ssa.Builtin
	Clo     *Closure
	Bad     string     // unsupported marker
	K       *big.Int   // untyped integer constant (contract expressions)
	lval    *Addr      // location the value was read from (contract expressions)
	seqElem types.Type // spec-level sequence value (Term is a Seq)
	seqES   string
	mapT    *types.Map // spec-level map value (Term is a Map)
	Boxed   *Val       // interface value made from this value (MakeInterface)
	Alts    []AltVal   // pointer that is one of several differently shaped addresses (conditions exclusive)
}

type AltVal struct {
	Cond string
	V    Val
}

type Mem struct {
	heaps map[string]string
	cells map[string]string
	ghost map[string]string
	cellT map[string]types.Type
	ptrs  map[string]Val // cells of pointer type currently holding an interior address
}

func NewMem() *Mem {
	return &Mem{heaps: map[string]string{}, cells: map[string]string{}, ghost: map[string]string{}, cellT: map[string]types.Type{}, ptrs: map[string]Val{}}
}

func (m *Mem) clone() *Mem {
	n := NewMem()
	for k, v := range m.heaps {
		n.heaps[k] = v
	}
	for k, v := range m.cells {
		n.cells[k] = v
	}
	for k, v := range m.ghost {
		n.ghost[k] = v
	}
	for k, v := range m.cellT {
		n.cellT[k] = v
	}
	for k, v := range m.ptrs {
		n.ptrs[k] = v
	}
	return n
}

// heapKey returns the heap name for field i of struct sort sn (or the
// non-struct heap for sort srt) and makes sure its initial constant exists.
func (s *Sess) heapKeyField(sn string, st *types.Struct, i int) string {
	k := "H_" + sn + "_" + st.Field(i).Name()
	if _, ok := s.g.heapReg[k]; !ok {
		s.g.heapReg[k] = func(s2 *Sess) { s2.heapKeyField(sn, st, i) }
	}
	if _, ok := s.heapSort[k]; !ok {
		hs := "(Array Int " + s.sortOf(st.Field(i).Type()) + ")"
		s.heapSort[k] = hs
		s.heapOwner[k] = "next_" + sortID(sn)
		s.heapElemT[k] = st.Field(i).Type()
		s.funDecl = append(s.funDecl, fmt.Sprintf("(declare-const %s_0 %s)", k, hs))

	}
	return k
}

func (s *Sess) heapKeyPlain(t types.Type) string {
	srt := s.sortOf(t)
	k := "H__" + sortID(srt)
	if _, ok := s.g.heapReg[k]; !ok {
		s.g.heapReg[k] = func(s2 *Sess) { s2.heapKeyPlain(t) }
	}
	if _, ok := s.heapSort[k]; !ok {
		hs := "(Array Int " + srt + ")"
		s.heapSort[k] = hs
		s.heapOwner[k] = "next_" + sortID(srt)
		s.heapElemT[k] = t

		s.funDecl = append(s.funDecl, fmt.Sprintf("(declare-const %s_0 %s)", k, hs))
	}
	return k
}

func (s *Sess) heapGet(m *Mem, k string) string {
	if v, ok := m.heaps[k]; ok {
		return v
	}
	return k + "_0"
}

func (s *Sess) ghostGet(m *Mem, k, sort string) string {
	if v, ok := m.ghost[k]; ok {
		return v
	}
	n := "G0_" + k
	if !s.funSeen[n] {
		s.funSeen[n] = true
		s.funDecl = append(s.funDecl, fmt.Sprintf("(declare-const %s %s)", n, sort))
		if strings.HasPrefix(k, "next_") {
			s.axioms = append(s.axioms, "(assert (>= "+n+" 1))")
		}
	}
	return n
}

func structOf(t types.Type) (*types.Struct, bool) {
	if t == nil {
		return nil, false
	}
	st, ok := types.Unalias(t).Underlying().(*types.Struct)
	return st, ok
}

func stepResultType(st Step) types.Type {
	switch st.Kind {
	case stField:
		s, _ := structOf(st.T)
		return s.Field(st.Field).Type()
	case stArr:
		return st.T.Underlying().(*types.Array).Elem()
	case stSeq:
		return st.T.Underlying().(*types.Slice).Elem()
	case stMapV:
		return st.T.Underlying().(*types.Map).Elem()
	}
	return nil
}

func (a *Addr) elemType() types.Type {
	t := a.RootT
	for _, st := range a.Steps {
		t = stepResultType(st)
	}
	return t
}

// readSteps applies steps to value x.
func (s *Sess) readSteps(x string, steps []Step) string {
	for _, st := range steps {
		switch st.Kind {
		case stField:
			stt, _ := structOf(st.T)
			x = "(" + fieldAcc(s.sortOf(st.T), stt, st.Field) + " " + x + ")"
		case stArr:
			x = s.arrSelect(st.T.Underlying().(*types.Array), x, st.Idx)
		case stSeq:
			es := s.sortOf(st.T.Underlying().(*types.Slice).Elem())
			x = "(select " + s.seqArr(es, x) + " " + st.Idx + ")"
		case stMapV:
			mt := st.T.Underlying().(*types.Map)
			x = "(select " + s.mapPart(s.sortOf(mt.Key()), s.sortOf(mt.Elem()), "mval", x) + " " + st.Idx + ")"
		}
	}
	return x
}

// writeSteps returns x with the location steps replaced by v.
func (s *Sess) writeSteps(x string, steps []Step, v string) string {
	if len(steps) == 0 {
		return v
	}
	st := steps[0]
	switch st.Kind {
	case stField:
		stt, _ := structOf(st.T)
		sn := s.sortOf(st.T)
		var fs []string
		for i := 0; i < stt.NumFields(); i++ {
			cur := "(" + fieldAcc(sn, stt, i) + " " + x + ")"
			if i == st.Field {
				fs = append(fs, s.writeSteps(cur, steps[1:], v))
			} else {
				fs = append(fs, cur)
			}
		}
		return "(mk_" + sn + " " + strings.Join(fs, " ") + ")"
	case stArr:
		at := st.T.Underlying().(*types.Array)
		if smallArr(at) && len(steps) > 1 && !isAtom(x) {
			x = s.name("av", s.sortOf(st.T), x)
		}
		cur := s.arrSelect(at, x, st.Idx)
		return s.arrStore(at, x, st.Idx, s.writeSteps(cur, steps[1:], v))
	case stSeq:
		es := s.sortOf(st.T.Underlying().(*types.Slice).Elem())
		arr := s.seqArr(es, x)
		cur := "(select " + arr + " " + st.Idx + ")"
		return s.mkSeq(es, s.seqLen(es, x), "(store "+arr+" "+st.Idx+" "+s.writeSteps(cur, steps[1:], v)+")")
	case stMapV:
		mt := st.T.Underlying().(*types.Map)
		ks, vs := s.sortOf(mt.Key()), s.sortOf(mt.Elem())
		val := s.mapPart(ks, vs, "mval", x)
		cur := "(select " + val + " " + st.Idx + ")"
		return s.mkMap(ks, vs, s.mapPart(ks, vs, "mnil", x), s.mapPart(ks, vs, "mhas", x),
			"(store "+val+" "+st.Idx+" "+s.writeSteps(cur, steps[1:], v)+")", s.mapPart(ks, vs, "msize", x))
	}
	panic("bad step")
}

// load reads the value at address a in memory m.
func (s *Sess) load(m *Mem, a *Addr) string {
	switch a.Root {
	case rootHeap:
		if st, ok := structOf(a.RootT); ok {
			sn := s.sortOf(a.RootT)
			if len(a.Steps) > 0 && a.Steps[0].Kind == stField {
				k := s.heapKeyField(sn, st, a.Steps[0].Field)
				return s.readSteps("(select "+s.heapGet(m, k)+" "+a.Ref+")", a.Steps[1:])
			}
			// whole struct
			var fs []string
			for i := 0; i < st.NumFields(); i++ {
				k := s.heapKeyField(sn, st, i)
				fs = append(fs, "(select "+s.heapGet(m, k)+" "+a.Ref+")")
			}
			x := "mk_" + sn
			if len(fs) > 0 {
				x = "(mk_" + sn + " " + strings.Join(fs, " ") + ")"
			}
			return s.readSteps(x, a.Steps)
		}
		k := s.heapKeyPlain(a.RootT)
		return s.readSteps("(select "+s.heapGet(m, k)+" "+a.Ref+")", a.Steps)
	default:
		x, ok := m.cells[a.Cell]
		if !ok {
			x = s.cellInit(a.Cell, a.RootT)
		}
		return s.readSteps(x, a.Steps)
	}
}

func (s *Sess) cellInit(key string, t types.Type) string {
	n := "C0_" + mangle(key)
	if !s.funSeen[n] {
		s.funSeen[n] = true
		s.funDecl = append(s.funDecl, fmt.Sprintf("(declare-const %s %s)", n, s.sortOf(t)))
	}
	return n
}

// store writes v at address a, returning the modified keys.
func (s *Sess) store(m *Mem, a *Addr, v string) (modified []string) {
	switch a.Root {
	case rootHeap:
		if st, ok := structOf(a.RootT); ok {
			sn := s.sortOf(a.RootT)
			if len(a.Steps) > 0 && a.Steps[0].Kind == stField {
				k := s.heapKeyField(sn, st, a.Steps[0].Field)
				h := s.heapGet(m, k)
				nv := s.writeSteps("(select "+h+" "+a.Ref+")", a.Steps[1:], v)
				fsort := s.sortOf(st.Field(a.Steps[0].Field).Type())
				nv = s.name("sv", fsort, nv)
				m.heaps[k] = s.name("h", s.heapSort[k], "(store "+h+" "+a.Ref+" "+nv+")")
				return []string{k + "@" + a.Ref}
			}
			if len(a.Steps) > 0 {
				panic("store: non-field step on struct root")
			}
			// whole struct
			v = s.name("sv", sn, v)
			for i := 0; i < st.NumFields(); i++ {
				k := s.heapKeyField(sn, st, i)
				h := s.heapGet(m, k)
				m.heaps[k] = s.name("h", s.heapSort[k], "(store "+h+" "+a.Ref+" ("+fieldAcc(sn, st, i)+" "+v+"))")
				modified = append(modified, k+"@"+a.Ref)
			}
			return modified
		}
		k := s.heapKeyPlain(a.RootT)
		h := s.heapGet(m, k)
		nv := s.writeSteps("(select "+h+" "+a.Ref+")", a.Steps, v)
		nv = s.name("sv", s.sortOf(a.RootT), nv)
		m.heaps[k] = s.name("h", s.heapSort[k], "(store "+h+" "+a.Ref+" "+nv+")")
		return []string{k + "@" + a.Ref}
	default:
		x, ok := m.cells[a.Cell]
		if !ok {
			x = s.cellInit(a.Cell, a.RootT)
		}
		nv := s.writeSteps(x, a.Steps, v)
		m.cells[a.Cell] = s.name("cv", s.sortOf(a.RootT), nv)
		m.cellT[a.Cell] = a.RootT
		return []string{"cell:" + a.Cell}
	}
}

// heapKeysOf returns the heap keys an address (prefix) covers when assigned as a whole.
// heapPtrKey: the side-table key for a pointer-typed field of an object allocated in the current
// function ("" if a is not such a location).
func (s *Sess) heapPtrKey(a *Addr) string {
	if a.Root != rootHeap || len(a.Steps) != 1 || a.Steps[0].Kind != stField || !strings.HasPrefix(a.Ref, "new_") {
		return ""
	}
	st, ok := structOf(a.RootT)
	if !ok {
		return ""
	}
	if _, isPtr := types.Unalias(st.Field(a.Steps[0].Field).Type()).Underlying().(*types.Pointer); !isPtr {
		return ""
	}
	return "heap:" + s.heapKeyField(s.sortOf(a.RootT), st, a.Steps[0].Field) + "@" + a.Ref
}

func (s *Sess) heapKeysOf(a *Addr) []string {
	if a.Root != rootHeap {
		return []string{"cell:" + a.Cell}
	}
	if st, ok := structOf(a.RootT); ok {
		sn := s.sortOf(a.RootT)
		if len(a.Steps) > 0 && a.Steps[0].Kind == stField {
			return []string{s.heapKeyField(sn, st, a.Steps[0].Field)}
		}
		var ks []string
		for i := 0; i < st.NumFields(); i++ {
			ks = append(ks, s.heapKeyField(sn, st, i))
		}
		return ks
	}
	return []string{s.heapKeyPlain(a.RootT)}
}

// mergeMem merges memories under the given (mutually exclusive) guards.
func (s *Sess) mergeMem(guards []string, mems []*Mem) *Mem {
	if len(mems) == 1 {
		return mems[0].clone()
	}
	out := NewMem()
	mergeMap := func(get func(*Mem) map[string]string, def func(k string) string, srt func(k string) string, put map[string]string) {
		keys := map[string]bool{}
		for _, m := range mems {
			for k := range get(m) {
				keys[k] = true
			}
		}
		for _, k := range sortedKeys(keys) {
			var vs []string
			same := true
			for _, m := range mems {
				v, ok := get(m)[k]
				if !ok {
					v = def(k)
				}
				vs = append(vs, v)
				if v != vs[0] {
					same = false
				}
			}
			if same {
				put[k] = vs[0]
				continue
			}
			t := vs[len(vs)-1]
			for i := len(vs) - 2; i >= 0; i-- {
				t = ite(guards[i], vs[i], t)
			}
			put[k] = s.name("mm", srt(k), t)
		}
	}
	mergeMap(func(m *Mem) map[string]string { return m.heaps }, func(k string) string { return k + "_0" },
		func(k string) string { return s.heapSort[k] }, out.heaps)
	for _, m := range mems {
		for k, t := range m.cellT {
			out.cellT[k] = t
		}
	}
	mergeMap(func(m *Mem) map[string]string { return m.cells }, func(k string) string { return s.cellInit(k, out.cellT[k]) },
		func(k string) string { return s.sortOf(out.cellT[k]) }, out.cells)
	mergeMap(func(m *Mem) map[string]string { return m.ghost }, func(k string) string { return s.ghostGet(&Mem{ghost: map[string]string{}}, k, s.ghostSortOf(k)) },
		func(k string) string { return s.ghostSortOf(k) }, out.ghost)
	return out
}

// materialize a slice view into a Seq term.
func (s *Sess) viewSeq(m *Mem, v *View) string {
	es := s.sortOf(v.Elem)
	if v.IsStr {
		return v.StrTerm
	}
	if off, ok1 := isConstTerm(v.Off); ok1 {
		if ln, ok2 := isConstTerm(v.Len); ok2 && off.IsInt64() && ln.IsInt64() && ln.Int64() <= 128 && ln.Int64() >= 0 {
			// constant window: a ground chain of the elements (two such sequences with equal elements are
			// equal terms - no extensionality or quantifier needed)
			arr := "((as const (Array Int " + es + ")) " + s.zero(v.Elem) + ")"
			for k := int64(0); k < ln.Int64(); k++ {
				arr = fmt.Sprintf("(store %s %d %s)", arr, k, s.load(m, s.viewElemAddr(v, fmt.Sprint(k))))
			}
			return s.mkSeq(es, v.Len, arr)
		}
	}
	base := s.load(m, v.Origin)
	var arr string
	if v.IsArray {
		arr = s.arrToSMT(types.Unalias(v.Origin.elemType()).Underlying().(*types.Array), base)
	} else {
		arr = s.seqArr(es, base)
	}
	if v.Off != "0" {
		// shifted copy
		n := s.fresh("sh", "(Array Int "+es+")")
		s.assert(fmt.Sprintf("(forall ((k Int)) (! (= (select %s k) (select %s (+ k %s))) :pattern ((select %s k))))", n, arr, v.Off, n))
		arr = n
	}
	return s.mkSeq(es, v.Len, arr)
}

func (s *Sess) viewElemAddr(v *View, idx string) *Addr {
	i := foldAdd(v.Off, idx)
	if v.IsArray {
		return v.Origin.with(Step{Kind: stArr, Idx: i, T: v.Origin.elemType()})
	}
	return v.Origin.with(Step{Kind: stSeq, Idx: i, T: v.Origin.elemType()})
}

// immutableKey: is k the heap of a field of a struct type declared immutable?
func (s *Sess) immutableKey(k string) bool {
	for _, nt := range s.g.immutableTypes() {
		if strings.HasPrefix(k, "H_"+s.sortOf(nt)+"_") {
			return true
		}
	}
	return false
}
