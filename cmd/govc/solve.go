package main

import (
	"regexp"
	"bytes"
	"context"
	"fmt"
	"os"
	"os/exec"
	"path/filepath"
	"strings"
	"sync"
	"sync/atomic"
	"time"
)

type Solver struct {
	Name string
	Args func(file string, timeoutS int) []string
	// AxRec: run on the script with every recursive definition turned into a declaration plus its defining
	// equation as a triggered axiom (solvers unfold define-fun-rec eagerly and can diverge on goals that need no
	// unfolding). The axiom says no more than the definition, so "unsat" stands; any other answer is ignored.
	AxRec bool
	// NoRec: as AxRec but without the defining equations at all: recursive spec functions become uninterpreted.
	// Decides the many goals that only need equal arguments to give equal values; again only "unsat" stands.
	NoRec bool
}

var solvers = []Solver{
	{"z3-new", func(f string, t int) []string { return []string{"z3-new", fmt.Sprintf("-T:%d", t), "-smt2", f} }, false, false},
	{"z3", func(f string, t int) []string { return []string{"z3", fmt.Sprintf("-T:%d", t), "-smt2", f} }, false, false},
	// pure E-matching configurations: much faster on obligations with many triggered quantifiers
	{"z3-new-ematch", func(f string, t int) []string {
		return []string{"z3-new", fmt.Sprintf("-T:%d", t), "smt.mbqi=false", "auto_config=false", "-smt2", f}
	}, false, false},
	{"z3-ematch", func(f string, t int) []string {
		return []string{"z3", fmt.Sprintf("-T:%d", t), "smt.mbqi=false", "auto_config=false", "-smt2", f}
	}, false, false},
	{"cvc5", func(f string, t int) []string {
		return []string{"cvc5", fmt.Sprintf("--tlimit=%d", t*1000), "--lang=smt2", f}
	}, false, false},
	{"z3-new-axrec", func(f string, t int) []string {
		return []string{"z3-new", fmt.Sprintf("-T:%d", t), "smt.mbqi=false", "auto_config=false", "-smt2", f}
	}, true, false},
	{"z3-new-norec", func(f string, t int) []string {
		return []string{"z3-new", fmt.Sprintf("-T:%d", t), "smt.mbqi=false", "auto_config=false", "-smt2", f}
	}, false, true},
}

// axiomatizeRec rewrites (define-fun-rec f ((a S)...) R body) lines into (declare-fun f (S...) R) and
// (assert (forall ((a S)...) (! (= (f a...) body) :pattern ((f a...))))).
func axiomatizeRec(script string) (string, bool) {
	if !strings.Contains(script, "(define-fun-rec ") {
		return "", false
	}
	var out []string
	for _, l := range strings.Split(script, "\n") {
		if !strings.HasPrefix(l, "(define-fun-rec ") {
			out = append(out, l)
			continue
		}
		toks := sexprTokens(l)
		// ( define-fun-rec name ( (a S) ... ) R body )
		name := toks[2]
		pEnd := skipSexpr(toks, 3)
		var names, sorts []string
		for i := 4; i < pEnd-1; {
			j := skipSexpr(toks, i)
			names = append(names, toks[i+1])
			sorts = append(sorts, strings.Join(toks[i+2:j-1], " "))
			i = j
		}
		rEnd := skipSexpr(toks, pEnd)
		ret := strings.Join(toks[pEnd:rEnd], " ")
		bEnd := skipSexpr(toks, rEnd)
		body := strings.Join(toks[rEnd:bEnd], " ")
		if len(names) == 0 {
			out = append(out, l)
			continue
		}
		var binds []string
		for i := range names {
			binds = append(binds, "("+names[i]+" "+sorts[i]+")")
		}
		app := "(" + name + " " + strings.Join(names, " ") + ")"
		out = append(out, "(declare-fun "+name+" ("+strings.Join(sorts, " ")+") "+ret+")")
		out = append(out, "(assert (forall ("+strings.Join(binds, " ")+") (! (= "+app+" "+body+") :pattern ("+app+")))) ; recdef")
	}
	return strings.Join(out, "\n"), true
}

func (o *Obligation) Script() string {
	s := o.Sess
	var b strings.Builder
	b.WriteString("(set-option :produce-models true)\n(set-logic ALL)\n")
	for _, l := range s.sortDecl {
		b.WriteString(l + "\n")
	}
	for _, l := range s.funDecl {
		b.WriteString(l + "\n")
	}
	for _, l := range s.axioms {
		b.WriteString(l + "\n")
	}
	n := o.Prefix
	if n > len(s.lines) {
		n = len(s.lines)
	}
	for _, l := range pruneDeadDefs(s.lines[:n], o.Goal+" "+o.Except+" "+strings.Join(s.axioms, " ")) {
		b.WriteString(l + "\n")
	}
	if o.Except != "" {
		b.WriteString("(assert (not " + o.Except + ")) ; known-finding exception\n")
	}
	b.WriteString("(assert (not " + o.Goal + "))\n(check-sat)\n(get-model)\n")
	return b.String()
}

var smtSeq int64

type solveOut struct {
	solver string
	status string // sat unsat unknown timeout error
	out    string
	dur    float64
}

func runSolver(ctx context.Context, sv Solver, file string, timeoutS int) solveOut {
	args := sv.Args(file, timeoutS)
	cctx, cancel := context.WithTimeout(ctx, time.Duration(timeoutS+2)*time.Second)
	defer cancel()
	cmd := exec.CommandContext(cctx, args[0], args[1:]...)
	var out bytes.Buffer
	cmd.Stdout = &out
	cmd.Stderr = &out
	t0 := time.Now()
	err := cmd.Run()
	d := time.Since(t0).Seconds()
	txt := out.String()
	first := ""
	for _, l := range strings.Split(txt, "\n") {
		l = strings.TrimSpace(l)
		if l == "" || strings.HasPrefix(l, "WARNING") {
			continue // z3 warns (e.g. about an unusable pattern) before answering
		}
		first = l
		break
	}
	st := "error"
	switch first {
	case "sat", "unsat", "unknown":
		st = first
	case "timeout":
		st = "timeout"
	default:
		if cctx.Err() != nil {
			st = "timeout"
		} else if err != nil && first == "" {
			st = "error"
		}
	}
	if st == "unknown" && strings.Contains(txt, "timeout") {
		st = "timeout"
	}
	return solveOut{sv.Name, st, txt, d}
}

// Discharge runs the solver race on one obligation.
func Discharge(o *Obligation, dir string, timeoutS int, all bool) {
	if o.Goal == "true" && !o.Cover {
		o.Status, o.Solver = "discharged", "trivial"
		return
	}
	if (o.Cover || strings.HasSuffix(o.Name, "~finding")) && timeoutS > 3 {
		timeoutS = 3 // vacuity guards only need a quick sat / unsat; unknown is not a failure
	}
	file := filepath.Join(dir, fmt.Sprintf("%s_%d.smt2", mangle(o.Name), atomic.AddInt64(&smtSeq, 1)))
	script := o.Script()
	os.WriteFile(file, []byte(script), 0o644)
	axFile, noRecFile := "", ""
	if ax, ok := axiomatizeRec(script); ok {
		axFile = strings.TrimSuffix(file, ".smt2") + "_axrec.smt2"
		os.WriteFile(axFile, []byte(ax), 0o644)
		var keep []string
		for _, l := range strings.Split(ax, "\n") {
			if !strings.HasSuffix(l, " ; recdef") {
				keep = append(keep, l)
			}
		}
		noRecFile = strings.TrimSuffix(file, ".smt2") + "_norec.smt2"
		os.WriteFile(noRecFile, []byte(strings.Join(keep, "\n")), 0o644)
	}
	ctx, cancel := context.WithCancel(context.Background())
	defer cancel()
	ch := make(chan solveOut, len(solvers))
	nrun := 0
	for _, sv := range solvers {
		f := file
		if sv.AxRec {
			if axFile == "" {
				continue
			}
			f = axFile
		}
		if sv.NoRec {
			if noRecFile == "" {
				continue
			}
			f = noRecFile
		}
		nrun++
		go func(sv Solver, f string) {
			r := runSolver(ctx, sv, f, timeoutS)
			if (sv.AxRec || sv.NoRec) && r.status != "unsat" {
				r.status = "unknown"
			}
			ch <- r
		}(sv, f)
	}
	var outs []solveOut
	var sat, unsat *solveOut
	var grace <-chan time.Time
	graceOver := false
	for k := 0; k < nrun; k++ {
		var r solveOut
		if grace != nil {
			select {
			case r = <-ch:
			case <-grace:
				cancel()
				graceOver = true
			}
			if graceOver {
				break
			}
		} else {
			r = <-ch
		}
		outs = append(outs, r)
		rr := r
		if r.status == "unsat" && unsat == nil {
			unsat = &rr
		}
		if r.status == "sat" && sat == nil {
			sat = &rr
		}
		if unsat != nil || sat != nil {
			if !all {
				cancel()
				break
			}
			// thorough: after the first verdict the other solvers get a grace period for a second
			// opinion (a disagreement is an engine error), then they are stopped
			if grace == nil {
				grace = time.After(10 * time.Second)
			}
		}
		if grace != nil {
			select {
			case <-grace:
				cancel()
				graceOver = true
			default:
			}
			if graceOver {
				break
			}
		}
	}
	var log []string
	for _, r := range outs {
		log = append(log, fmt.Sprintf("%s: %s (%.2fs)", r.solver, r.status, r.dur))
	}
	o.Output = strings.Join(log, "; ")
	switch {
	case sat != nil && unsat != nil:
		o.Status = "engine-error"
		o.Output += " — solvers disagree"
	case o.Cover:
		switch {
		case unsat != nil:
			o.Status, o.Solver, o.Time = "cover-vacuous", unsat.solver, unsat.dur
		case sat != nil:
			o.Status, o.Solver, o.Time = "cover-ok", sat.solver, sat.dur
		default:
			o.Status = "cover-undecided"
		}
	case unsat != nil:
		o.Status, o.Solver, o.Time = "discharged", unsat.solver, unsat.dur
	case sat != nil:
		o.Status, o.Solver, o.Time = "refuted", sat.solver, sat.dur
		o.Model = parseModel(sat.out)
		o.Output += "\n" + truncate(sat.out, 6000)
	default:
		o.Status = "undecided"
		allErr := true
		for _, r := range outs {
			if r.status != "error" {
				allErr = false
			}
		}
		if allErr {
			o.Status = "engine-error"
			o.Output += "\n" + truncate(outs[0].out, 2000)
		}
	}
}

func truncate(s string, n int) string {
	if len(s) > n {
		return s[:n] + "…"
	}
	return s
}

// DischargeAll runs obligations in parallel.
func DischargeAll(obls []*Obligation, timeoutS int, par int, all bool) {
	dir, _ := os.MkdirTemp("", "govc-smt")
	defer os.RemoveAll(dir)
	if keep := os.Getenv("GOVC_KEEP_SMT"); keep != "" {
		os.MkdirAll(keep, 0o755)
		dir = keep
	}
	var wg sync.WaitGroup
	sem := make(chan struct{}, par)
	for _, o := range obls {
		wg.Add(1)
		sem <- struct{}{}
		go func(o *Obligation) {
			defer wg.Done()
			defer func() { <-sem }()
			Discharge(o, dir, timeoutS, all)
		}(o)
	}
	wg.Wait()
}

// parseModel extracts 0-ary define-funs from a solver model.
func parseModel(out string) map[string]string {
	m := map[string]string{}
	toks := sexprTokens(out)
	for i := 0; i+4 < len(toks); i++ {
		if toks[i] == "(" && toks[i+1] == "define-fun" && toks[i+3] == "(" && toks[i+4] == ")" {
			name := toks[i+2]
			// skip sort
			j := i + 5
			j = skipSexpr(toks, j)
			k := skipSexpr(toks, j)
			if j < len(toks) && k <= len(toks) {
				m[name] = strings.Join(toks[j:k], " ")
			}
		}
	}
	return m
}

func sexprTokens(s string) []string {
	var toks []string
	i := 0
	for i < len(s) {
		c := s[i]
		switch {
		case c == '(' || c == ')':
			toks = append(toks, string(c))
			i++
		case c == ' ' || c == '\n' || c == '\t' || c == '\r':
			i++
		case c == ';':
			for i < len(s) && s[i] != '\n' {
				i++
			}
		case c == '"':
			j := i + 1
			for j < len(s) && s[j] != '"' {
				j++
			}
			toks = append(toks, s[i:min(j+1, len(s))])
			i = j + 1
		default:
			j := i
			for j < len(s) && !strings.ContainsRune("() \n\t\r", rune(s[j])) {
				j++
			}
			toks = append(toks, s[i:j])
			i = j
		}
	}
	return toks
}

func skipSexpr(toks []string, i int) int {
	if i >= len(toks) {
		return i
	}
	if toks[i] != "(" {
		return i + 1
	}
	depth := 0
	for i < len(toks) {
		if toks[i] == "(" {
			depth++
		} else if toks[i] == ")" {
			depth--
			if depth == 0 {
				return i + 1
			}
		}
		i++
	}
	return i
}

var reDefLine = regexp.MustCompile(`^\(assert \(= ([A-Za-z_][A-Za-z0-9_]*) `)
var reRangeLine = regexp.MustCompile(`^\(assert \(and \(<=? [-0-9() ]+ ([A-Za-z_][A-Za-z0-9_]*)\) \(<=? ([A-Za-z_][A-Za-z0-9_]*) [-0-9() ]+\)\)\)$`)
var reSym = regexp.MustCompile(`[A-Za-z_][A-Za-z0-9_]*`)

// pruneDeadDefs drops assertions that only define (or bound) a generated constant nothing else mentions:
// "(assert (= x term))" with x occurring in no other assertion, goal or axiom can always be satisfied by
// choosing x, so the rest of the script is equisatisfiable without it. Repeats until nothing changes.
func pruneDeadDefs(lines []string, rest string) []string {
	type info struct {
		def  string   // defined / bounded name ("" = ordinary assertion)
		syms []string // identifiers occurring in the line
	}
	infos := make([]info, len(lines))
	count := map[string]int{}
	for _, sy := range reSym.FindAllString(rest, -1) {
		count[sy] += 1 << 20
	}
	for i, l := range lines {
		infos[i].syms = reSym.FindAllString(l, -1)
		for _, sy := range infos[i].syms {
			count[sy]++
		}
		if m := reDefLine.FindStringSubmatch(l); m != nil && generatedName(m[1]) {
			infos[i].def = m[1]
		} else if m := reRangeLine.FindStringSubmatch(l); m != nil && m[1] == m[2] && generatedName(m[1]) {
			infos[i].def = m[1]
		}
	}
	// occurrences of x inside the lines that define/bound x do not keep x alive
	own := map[string]int{}
	for _, in := range infos {
		if in.def != "" {
			for _, sy := range in.syms {
				if sy == in.def {
					own[sy]++
				}
			}
		}
	}
	dead := make([]bool, len(lines))
	for changed := true; changed; {
		changed = false
		for i, in := range infos {
			if dead[i] || in.def == "" {
				continue
			}
			if count[in.def]-own[in.def] > 0 {
				continue
			}
			dead[i] = true
			changed = true
			for _, sy := range in.syms {
				if sy == in.def {
					continue
				}
				count[sy]--
			}
		}
	}
	out := lines[:0:0]
	for i, l := range lines {
		if !dead[i] {
			out = append(out, l)
		}
	}
	return out
}

// generatedName: constants minted by the generator (prefix_number), never parameters or ghosts.
func generatedName(n string) bool {
	i := strings.LastIndex(n, "_")
	if i <= 0 || i == len(n)-1 {
		return false
	}
	for _, c := range n[i+1:] {
		if c < '0' || c > '9' {
			return false
		}
	}
	switch n[:i] {
	case "p", "lp", "G0", "hg", "new", "nx", "hc", "hh", "hs", "ha", "hm", "hp":
		return false
	}
	return !strings.HasPrefix(n, "p_") && !strings.HasPrefix(n, "lp_") && !strings.HasPrefix(n, "H_") && !strings.HasPrefix(n, "G0_") && !strings.HasPrefix(n, "C0_")
}
