package main

import (
	"bytes"
	"context"
	"fmt"
	"os"
	"os/exec"
	"path/filepath"
	"strings"
	"sync"
	"sync/atomic"
	"time"
)

type Solver struct {
	Name string
	Args func(file string, timeoutS int) []string
}

var solvers = []Solver{
	{"z3-new", func(f string, t int) []string { return []string{"z3-new", fmt.Sprintf("-T:%d", t), "-smt2", f} }},
	{"z3", func(f string, t int) []string { return []string{"z3", fmt.Sprintf("-T:%d", t), "-smt2", f} }},
	// pure E-matching configurations: much faster on obligations with many triggered quantifiers
	{"z3-new-ematch", func(f string, t int) []string {
		return []string{"z3-new", fmt.Sprintf("-T:%d", t), "smt.mbqi=false", "auto_config=false", "-smt2", f}
	}},
	{"z3-ematch", func(f string, t int) []string {
		return []string{"z3", fmt.Sprintf("-T:%d", t), "smt.mbqi=false", "auto_config=false", "-smt2", f}
	}},
	{"cvc5", func(f string, t int) []string {
		return []string{"cvc5", fmt.Sprintf("--tlimit=%d", t*1000), "--lang=smt2", f}
	}},
}

func (o *Obligation) Script() string {
	s := o.Sess
	var b strings.Builder
	b.WriteString("(set-option :produce-models true)\n(set-logic ALL)\n")
	for _, l := range s.sortDecl {
		b.WriteString(l + "\n")
	}
	for _, l := range s.funDecl {
		b.WriteString(l + "\n")
	}
	for _, l := range s.axioms {
		b.WriteString(l + "\n")
	}
	n := o.Prefix
	if n > len(s.lines) {
		n = len(s.lines)
	}
	for _, l := range s.lines[:n] {
		b.WriteString(l + "\n")
	}
	if o.Except != "" {
		b.WriteString("(assert (not " + o.Except + ")) ; known-finding exception\n")
	}
	b.WriteString("(assert (not " + o.Goal + "))\n(check-sat)\n(get-model)\n")
	return b.String()
}

var smtSeq int64

type solveOut struct {
	solver string
	status string // sat unsat unknown timeout error
	out    string
	dur    float64
}

func runSolver(ctx context.Context, sv Solver, file string, timeoutS int) solveOut {
	args := sv.Args(file, timeoutS)
	cctx, cancel := context.WithTimeout(ctx, time.Duration(timeoutS+2)*time.Second)
	defer cancel()
	cmd := exec.CommandContext(cctx, args[0], args[1:]...)
	var out bytes.Buffer
	cmd.Stdout = &out
	cmd.Stderr = &out
	t0 := time.Now()
	err := cmd.Run()
	d := time.Since(t0).Seconds()
	txt := out.String()
	first := ""
	for _, l := range strings.Split(txt, "\n") {
		l = strings.TrimSpace(l)
		if l == "" || strings.HasPrefix(l, "WARNING") {
			continue // z3 warns (e.g. about an unusable pattern) before answering
		}
		first = l
		break
	}
	st := "error"
	switch first {
	case "sat", "unsat", "unknown":
		st = first
	case "timeout":
		st = "timeout"
	default:
		if cctx.Err() != nil {
			st = "timeout"
		} else if err != nil && first == "" {
			st = "error"
		}
	}
	if st == "unknown" && strings.Contains(txt, "timeout") {
		st = "timeout"
	}
	return solveOut{sv.Name, st, txt, d}
}

// Discharge runs the solver race on one obligation.
func Discharge(o *Obligation, dir string, timeoutS int, all bool) {
	if o.Goal == "true" && !o.Cover {
		o.Status, o.Solver = "discharged", "trivial"
		return
	}
	if (o.Cover || strings.HasSuffix(o.Name, "~finding")) && timeoutS > 3 {
		timeoutS = 3 // vacuity guards only need a quick sat / unsat; unknown is not a failure
	}
	file := filepath.Join(dir, fmt.Sprintf("%s_%d.smt2", mangle(o.Name), atomic.AddInt64(&smtSeq, 1)))
	os.WriteFile(file, []byte(o.Script()), 0o644)
	ctx, cancel := context.WithCancel(context.Background())
	defer cancel()
	ch := make(chan solveOut, len(solvers))
	for _, sv := range solvers {
		go func(sv Solver) { ch <- runSolver(ctx, sv, file, timeoutS) }(sv)
	}
	var outs []solveOut
	var sat, unsat *solveOut
	for range solvers {
		r := <-ch
		outs = append(outs, r)
		rr := r
		if r.status == "unsat" && unsat == nil {
			unsat = &rr
		}
		if r.status == "sat" && sat == nil {
			sat = &rr
		}
		if !all && (unsat != nil || sat != nil) {
			cancel()
			break
		}
	}
	var log []string
	for _, r := range outs {
		log = append(log, fmt.Sprintf("%s: %s (%.2fs)", r.solver, r.status, r.dur))
	}
	o.Output = strings.Join(log, "; ")
	switch {
	case sat != nil && unsat != nil:
		o.Status = "engine-error"
		o.Output += " — solvers disagree"
	case o.Cover:
		switch {
		case unsat != nil:
			o.Status, o.Solver, o.Time = "cover-vacuous", unsat.solver, unsat.dur
		case sat != nil:
			o.Status, o.Solver, o.Time = "cover-ok", sat.solver, sat.dur
		default:
			o.Status = "cover-undecided"
		}
	case unsat != nil:
		o.Status, o.Solver, o.Time = "discharged", unsat.solver, unsat.dur
	case sat != nil:
		o.Status, o.Solver, o.Time = "refuted", sat.solver, sat.dur
		o.Model = parseModel(sat.out)
		o.Output += "\n" + truncate(sat.out, 6000)
	default:
		o.Status = "undecided"
		allErr := true
		for _, r := range outs {
			if r.status != "error" {
				allErr = false
			}
		}
		if allErr {
			o.Status = "engine-error"
			o.Output += "\n" + truncate(outs[0].out, 2000)
		}
	}
}

func truncate(s string, n int) string {
	if len(s) > n {
		return s[:n] + "…"
	}
	return s
}

// DischargeAll runs obligations in parallel.
func DischargeAll(obls []*Obligation, timeoutS int, par int, all bool) {
	dir, _ := os.MkdirTemp("", "govc-smt")
	defer os.RemoveAll(dir)
	if keep := os.Getenv("GOVC_KEEP_SMT"); keep != "" {
		os.MkdirAll(keep, 0o755)
		dir = keep
	}
	var wg sync.WaitGroup
	sem := make(chan struct{}, par)
	for _, o := range obls {
		wg.Add(1)
		sem <- struct{}{}
		go func(o *Obligation) {
			defer wg.Done()
			defer func() { <-sem }()
			Discharge(o, dir, timeoutS, all)
		}(o)
	}
	wg.Wait()
}

// parseModel extracts 0-ary define-funs from a solver model.
func parseModel(out string) map[string]string {
	m := map[string]string{}
	toks := sexprTokens(out)
	for i := 0; i+4 < len(toks); i++ {
		if toks[i] == "(" && toks[i+1] == "define-fun" && toks[i+3] == "(" && toks[i+4] == ")" {
			name := toks[i+2]
			// skip sort
			j := i + 5
			j = skipSexpr(toks, j)
			k := skipSexpr(toks, j)
			if j < len(toks) && k <= len(toks) {
				m[name] = strings.Join(toks[j:k], " ")
			}
		}
	}
	return m
}

func sexprTokens(s string) []string {
	var toks []string
	i := 0
	for i < len(s) {
		c := s[i]
		switch {
		case c == '(' || c == ')':
			toks = append(toks, string(c))
			i++
		case c == ' ' || c == '\n' || c == '\t' || c == '\r':
			i++
		case c == ';':
			for i < len(s) && s[i] != '\n' {
				i++
			}
		case c == '"':
			j := i + 1
			for j < len(s) && s[j] != '"' {
				j++
			}
			toks = append(toks, s[i:min(j+1, len(s))])
			i = j + 1
		default:
			j := i
			for j < len(s) && !strings.ContainsRune("() \n\t\r", rune(s[j])) {
				j++
			}
			toks = append(toks, s[i:j])
			i = j
		}
	}
	return toks
}

func skipSexpr(toks []string, i int) int {
	if i >= len(toks) {
		return i
	}
	if toks[i] != "(" {
		return i + 1
	}
	depth := 0
	for i < len(toks) {
		if toks[i] == "(" {
			depth++
		} else if toks[i] == ")" {
			depth--
			if depth == 0 {
				return i + 1
			}
		}
		i++
	}
	return i
}
