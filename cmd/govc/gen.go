package main

import (
	"fmt"
	"go/token"
	"go/types"
	"math/big"
	"os"
	"path/filepath"
	"sort"
	"strings"

	"golang.org/x/tools/go/packages"
	"golang.org/x/tools/go/ssa"
	"golang.org/x/tools/go/ssa/ssautil"
)

const modulePath = "github.com/protolambda/zrnt"

type Gen struct {
	repo            string
	fset            *token.FileSet
	prog            *ssa.Program
	pkgs            map[string]*packages.Package
	spkgs           map[string]*ssa.Package
	immTypes        []*types.Named
	callOrds        map[*ssa.Function]map[ssa.CallInstruction]callOrd
	defOrds         map[*ssa.Function]map[*ssa.DebugRef]callOrd
	db              *SpecDB
	ghostSorts      map[string]string
	nonNilGlob      map[*ssa.Global]int
	loadErrs        []string
	heapReg         map[string]func(*Sess)
	allocCache      map[*ssa.Function]map[string]bool // struct sort ids a function may allocate ("*" = anything)
	inlineForReplay bool                              // replay mode: in-repo callees are inlined instead of replaced by their contracts
}

func (g *Gen) ghostSort(k string) string {
	if s, ok := g.ghostSorts[k]; ok {
		return s
	}
	if gd, ok := g.db.Ghosts[k]; ok {
		switch gd[0] {
		case "int":
			return "Int"
		case "bool":
			return "Bool"
		}
	}
	return "Int"
}

// ghostSortOf: like ghostSort, but a ghost declared with a sort alias (a Go type) gets that type's SMT
// sort, declared in this session; the value it is compared with then carries its Go type.
func (s *Sess) ghostSortOf(k string) string {
	g := s.g
	if gd, ok := g.db.Ghosts[k]; ok && gd[0] != "int" && gd[0] != "bool" {
		if _, has := g.ghostSorts[k]; !has {
			srt, _ := g.specSort(s, gd[0], gd[1], nil)
			return srt
		}
	}
	return g.ghostSort(k)
}

func (g *Gen) isGhost(k string) bool {
	if _, ok := g.ghostSorts[k]; ok {
		return true
	}
	_, ok := g.db.Ghosts[k]
	return ok
}

// guardFor returns the guard declaration for a struct type, if any.
func (g *Gen) guardFor(t types.Type) *Guard {
	nt, ok := types.Unalias(t).(*types.Named)
	if !ok || nt.Obj().Pkg() == nil {
		return nil
	}
	for _, gd := range g.db.Guards {
		if gd.PkgPath == nt.Obj().Pkg().Path() && gd.Struct == nt.Obj().Name() {
			return gd
		}
	}
	return nil
}

func (g *Gen) typesPkg(path string) *types.Package {
	if p, ok := g.pkgs[path]; ok {
		return p.Types
	}
	return nil
}

func (g *Gen) allTypesPkgs() []*types.Package {
	var ks []string
	for k := range g.pkgs {
		ks = append(ks, k)
	}
	sort.Strings(ks)
	var out []*types.Package
	for _, k := range ks {
		if strings.HasPrefix(k, modulePath) {
			out = append(out, g.pkgs[k].Types)
		}
	}
	return out
}

func (g *Gen) inRepo(f *ssa.Function) bool {
	for f.Parent() != nil {
		f = f.Parent()
	}
	if f.Pkg == nil {
		if f.Object() != nil && f.Object().Pkg() != nil {
			return strings.HasPrefix(f.Object().Pkg().Path(), modulePath)
		}
		return false
	}
	return strings.HasPrefix(f.Pkg.Pkg.Path(), modulePath)
}

func (g *Gen) contractFor(fn *ssa.Function) *Contract {
	return g.db.Contracts[fnKey(fn)]
}

// Load loads the repository (current working tree, tag verif) and all contract files.
func Load(repo, specDir string, patterns []string) (*Gen, error) {
	g := &Gen{repo: repo, db: NewSpecDB(), ghostSorts: map[string]string{}, pkgs: map[string]*packages.Package{}, spkgs: map[string]*ssa.Package{}, nonNilGlob: map[*ssa.Global]int{}, heapReg: map[string]func(*Sess){}}
	g.fset = token.NewFileSet()
	cfg := &packages.Config{Mode: packages.LoadAllSyntax, Dir: repo, BuildFlags: []string{"-tags=verif"}, Fset: g.fset,
		Env: append(os.Environ(), "GOFLAGS=-mod=mod", "GOPROXY=off", "GOSUMDB=off", "GOTOOLCHAIN=local")}
	pkgs, err := packages.Load(cfg, patterns...)
	if err != nil {
		return nil, err
	}
	packages.Visit(pkgs, nil, func(p *packages.Package) {
		g.pkgs[p.PkgPath] = p
		for _, e := range p.Errors {
			if strings.HasPrefix(p.PkgPath, modulePath) {
				g.loadErrs = append(g.loadErrs, e.Error())
			}
		}
	})
	if len(g.loadErrs) > 0 {
		return g, fmt.Errorf("package errors: %s", strings.Join(g.loadErrs, "; "))
	}
	prog, _ := ssautil.AllPackages(pkgs, ssa.GlobalDebug|ssa.BareInits)
	prog.Build()
	g.prog = prog
	for _, sp := range prog.AllPackages() {
		g.spkgs[sp.Pkg.Path()] = sp
	}
	if err := g.db.LoadSpecDir(specDir); err != nil {
		return g, err
	}
	// contract files inside the repo packages
	var paths []string
	for path, p := range g.pkgs {
		if strings.HasPrefix(path, modulePath) && len(p.GoFiles) > 0 {
			paths = append(paths, path)
		}
	}
	sort.Strings(paths)
	for _, path := range paths {
		dir := filepath.Dir(g.pkgs[path].GoFiles[0])
		files, _ := filepath.Glob(filepath.Join(dir, "zz_verif_contracts*.go"))
		sort.Strings(files)
		for _, f := range files {
			if err := g.db.LoadContractFile(f, path); err != nil {
				return g, err
			}
		}
	}
	return g, nil
}

// findFunc binds a contract to its SSA function.
func (g *Gen) findFunc(ct *Contract) (*ssa.Function, error) {
	sp := g.spkgs[ct.PkgPath]
	if sp == nil {
		return nil, fmt.Errorf("package %s not loaded", ct.PkgPath)
	}
	if ct.Recv == "" {
		if f := sp.Func(ct.Name); f != nil {
			return f, nil
		}
		return nil, fmt.Errorf("function %s.%s not found", ct.PkgPath, ct.Name)
	}
	tn, ok := sp.Pkg.Scope().Lookup(ct.Recv).(*types.TypeName)
	if !ok {
		return nil, fmt.Errorf("type %s.%s not found", ct.PkgPath, ct.Recv)
	}
	for _, t := range []types.Type{tn.Type(), types.NewPointer(tn.Type())} {
		ms := g.prog.MethodSets.MethodSet(t)
		for i := 0; i < ms.Len(); i++ {
			sel := ms.At(i)
			if sel.Obj().Name() == ct.Name {
				if f := g.prog.MethodValue(sel); f != nil {
					// unwrap synthetic wrappers to the declared method
					if f.Synthetic != "" {
						if obj, ok := sel.Obj().(*types.Func); ok {
							if d := g.prog.FuncValue(obj); d != nil {
								return d, nil
							}
						}
					}
					return f, nil
				}
			}
		}
	}
	return nil, fmt.Errorf("method %s.%s.%s not found", ct.PkgPath, ct.Recv, ct.Name)
}

func (g *Gen) isConstNonNilGlobal(gl *ssa.Global) bool {
	if v, ok := g.nonNilGlob[gl]; ok {
		return v == 1
	}
	res := 0
	et := gl.Type().(*types.Pointer).Elem()
	switch types.Unalias(et).Underlying().(type) {
	case *types.Interface, *types.Pointer, *types.Signature:
	default:
		g.nonNilGlob[gl] = 0
		return false
	}
	okInit := false
	bad := false
	if gl.Pkg != nil {
		for _, m := range gl.Pkg.Members {
			f, ok := m.(*ssa.Function)
			if !ok {
				continue
			}
			var walk func(f *ssa.Function)
			walk = func(f *ssa.Function) {
				for _, b := range f.Blocks {
					for _, ins := range b.Instrs {
						if st, ok := ins.(*ssa.Store); ok && st.Addr == gl {
							if f.Name() == "init" {
								switch v := st.Val.(type) {
								case *ssa.Call:
									if sc := v.Call.StaticCallee(); sc != nil && (fnKey(sc) == "errors.New" || fnKey(sc) == "fmt.Errorf") {
										okInit = true
										continue
									}
								case *ssa.MakeInterface, *ssa.Function, *ssa.MakeClosure:
									okInit = true
									continue
								}
							}
							bad = true
						}
					}
				}
				for _, af := range f.AnonFuncs {
					walk(af)
				}
			}
			walk(f)
		}
	}
	if okInit && !bad {
		res = 1
	}
	g.nonNilGlob[gl] = res
	return res == 1
}

// ---------------------------------------------------------------- verification of one function

type FuncResult struct {
	Contract *Contract
	Func     string
	Obls     []*Obligation
	Inlined  []string
	Havocked []string
	Notes    []string
	BindErr  string
	Iter     int
	fe       *FnEnc
}

func (g *Gen) VerifyFunction(ct *Contract) *FuncResult {
	res := &FuncResult{Contract: ct}
	fn, err := g.findFunc(ct)
	bindFail := func(msg string) *FuncResult {
		s := NewSess(g, "int")
		name := ct.PkgPath[strings.LastIndex(ct.PkgPath, "/")+1:] + "."
		if ct.Recv != "" {
			name += ct.Recv + "."
		}
		name += ct.Name
		res.Func = name
		res.BindErr = msg
		res.Obls = []*Obligation{{Name: name + "#bind", Func: name, Kind: "bind", Goal: "false", Sess: s, Src: msg, Props: ct.Props}}
		return res
	}
	if err != nil {
		return bindFail(err.Error())
	}
	if fn.Blocks == nil {
		return bindFail("function has no body")
	}
	nparams := len(fn.Params)
	if fn.Signature.Recv() != nil {
		nparams--
	}
	if len(ct.Params) != nparams {
		return bindFail(fmt.Sprintf("contract names %d parameters, function has %d", len(ct.Params), nparams))
	}
	if len(ct.Results) != 0 && len(ct.Results) != fn.Signature.Results().Len() {
		return bindFail(fmt.Sprintf("contract names %d results, function has %d", len(ct.Results), fn.Signature.Results().Len()))
	}
	modsets := map[string]map[string]bool{}
	modrefs := map[string]map[string]map[string]bool{}
	var fe *FnEnc
	for iter := 0; iter < 10; iter++ {
		s := NewSess(g, ct.Mode)
		s.setUses(ct.Uses)
		fe = &FnEnc{g: g, s: s, fn: fn, ct: ct, vals: map[ssa.Value]Val{}, sites: map[string]int{}, modsets: modsets, modrefs: modrefs,
			inlined: map[string]bool{}, havocked: map[string]bool{}, props: ct.Props, guard: "true", mem: NewMem()}
		fe.top = fe
		fe.setupParams()
		fe.entryMem = fe.mem.clone()
		// requires
		ev := fe.newEval(fe.mem, fe.entryMem, fe.paramVals)
		var reqs []string
		for _, r := range ct.Requires {
			t := ev.evalAssume(r.E)
			reqs = append(reqs, t)
			s.assert(t)
		}
		// cover:pre — the preconditions (and type invariants) are satisfiable
		o := fe.oblig("cover", "pre", "false", "preconditions satisfiable", fn.Pos())
		o.Cover = true
		fe.run(fe.paramArgs())
		fe.atExit()
		res.Iter = iter + 1
		if !fe.modGrew {
			break
		}
		fe.modGrew = false
	}
	// loop ordinals named by the contract must exist
	for k := range ct.Loops {
		if k == 0 {
			continue // "loop *"
		}
		found := false
		for _, li := range fe.loops {
			if li.ordinal == k {
				found = true
			}
		}
		if !found {
			fe.bindErrs = append(fe.bindErrs, fmt.Sprintf("contract annotates loop %d, function has %d loops", k, len(fe.loops)))
		}
	}
	res.Func = fe.fnName()
	res.fe = fe
	if len(fe.bindErrs) > 0 {
		res.BindErr = strings.Join(fe.bindErrs, "; ")
		fe.obls = append(fe.obls, &Obligation{Name: fe.fnName() + "#bind", Func: fe.fnName(), Kind: "bind", Goal: "false", Sess: fe.s, Src: res.BindErr, Props: ct.Props})
	} else {
		fe.obls = append(fe.obls, &Obligation{Name: fe.fnName() + "#bind", Func: fe.fnName(), Kind: "bind", Goal: "true", Sess: fe.s, Src: "contract binds to the function (parameters, results, loops, names)", Props: ct.Props})
	}
	fe.s.finalize()
	if len(fe.s.axiomErrs) > 0 {
		for _, o := range fe.obls {
			if o.Kind == "bind" {
				o.Goal = "false"
				o.Src += "; axiom errors: " + strings.Join(fe.s.axiomErrs, "; ")
			}
		}
	}
	res.Obls = fe.obls
	res.Inlined = sortedKeys(fe.inlined)
	res.Havocked = sortedKeys(fe.havocked)
	res.Notes = fe.s.notes
	return res
}

func (fe *FnEnc) paramArgs() []Val {
	var out []Val
	for _, p := range fe.fn.Params {
		out = append(out, fe.vals[p])
	}
	return out
}

func (fe *FnEnc) setupParams() {
	s := fe.s
	fe.paramVals = map[string]Val{}
	ct := fe.ct
	off := 0
	if fe.fn.Signature.Recv() != nil {
		off = 1
	}
	for i, p := range fe.fn.Params {
		name := p.Name()
		if off == 1 && i == 0 {
			if ct.RecvName != "" {
				name = ct.RecvName
			}
		} else if i-off < len(ct.Params) {
			name = ct.Params[i-off]
		}
		t := p.Type()
		cn := "p_" + mangle(name)
		var v Val
		switch u := types.Unalias(t).Underlying().(type) {
		case *types.Slice:
			es := s.sortOf(u.Elem())
			s.lines = append(s.lines, fmt.Sprintf("(declare-const %s %s)", cn, s.sortOf(t)))
			s.assumeRange(t, cn)
			ck := "param_" + mangle(name)
			fe.mem.cells[ck] = cn
			fe.mem.cellT[ck] = t
			s.funSeen["C0_"+mangle(ck)] = true
			s.funDecl = append(s.funDecl, fmt.Sprintf("(declare-const C0_%s %s)", mangle(ck), s.sortOf(t)))
			s.assert("(= C0_" + mangle(ck) + " " + cn + ")")
			v = Val{T: t, View: &View{Origin: &Addr{Root: rootCell, Cell: ck, RootT: t, Nil: "false"}, Off: "0", Len: s.seqLen(es, cn), Elem: u.Elem()}}
			nf := s.fresh("isnil_"+mangle(name), "Bool")
			s.assert("(=> " + nf + " (= " + s.seqLen(es, cn) + " 0))")
			v.View.NilFlag = nf
		case *types.Map:
			s.lines = append(s.lines, fmt.Sprintf("(declare-const %s %s)", cn, s.sortOf(t)))
			s.assumeRange(t, cn)
			ck := "param_" + mangle(name)
			fe.mem.cells[ck] = cn
			fe.mem.cellT[ck] = t
			v = Val{T: t, Map: &MapV{Origin: &Addr{Root: rootCell, Cell: ck, RootT: t, Nil: "false"}, T: u}}
		default:
			s.lines = append(s.lines, fmt.Sprintf("(declare-const %s %s)", cn, s.sortOf(t)))
			s.assumeRange(t, cn)
			v = Val{T: t, Term: cn}
			if pt, ok := u.(*types.Pointer); ok {
				fe.assumePtr(pt, cn)
			}
		}
		fe.vals[p] = v
		fe.paramVals[name] = v
		fe.paramConsts = append(fe.paramConsts, ParamConst{Name: name, Const: cn, Type: types.TypeString(t, func(p *types.Package) string { return p.Name() })})
	}
}

// atExit checks postconditions and the frame on the merged return state.
func (fe *FnEnc) atExit() {
	s := fe.s
	ct := fe.ct
	if len(fe.rets) == 0 {
		return
	}
	var gs []string
	var ms []*Mem
	for _, r := range fe.rets {
		gs = append(gs, r.guard)
		ms = append(ms, r.mem)
	}
	fe.guard = s.name("gret", "Bool", or(gs...))
	fe.mem = fe.mergeMems(gs, ms)
	env := map[string]Val{}
	for k, v := range fe.paramVals {
		env[k] = v
	}
	nres := fe.fn.Signature.Results().Len()
	var results []Val
	for i := 0; i < nres; i++ {
		var vs []Val
		for _, r := range fe.rets {
			vs = append(vs, r.vals[i])
		}
		results = append(results, fe.mergeVals(gs, vs, fe.fn.Signature.Results().At(i).Type()))
	}
	for i, n := range ct.Results {
		if i < len(results) {
			env[n] = results[i]
		}
	}
	if nres == 1 {
		env["result"] = results[0]
	}
	pos := fe.fn.Pos()
	ev := fe.newEval(fe.mem, fe.entryMem, env)
	for _, e := range ct.Ensures {
		o := fe.oblig("post", e.Label, implies(fe.guard, ev.evalBool(e.E)), e.Src, pos)
		if len(e.Props) > 0 {
			o.Props = e.Props
		}
	}
	for _, c := range ct.Covers {
		o := fe.oblig("cover", c.Label, not(and(fe.guard, ev.evalBool(c.E))), c.Src, pos)
		o.Cover = true
	}
	fe.frameCheck(ev, pos)
	{
		// cover:exit — everything assumed along the way (callee contracts, axioms met by the body's
		// terms, loop invariants) is still satisfiable: an inconsistent assumption would prove every post
		o := fe.oblig("cover", "exit", "false", "assumptions made in the body are satisfiable", pos)
		o.Cover = true
	}
	if ct.Opts["noalloc"] != "" {
		var gs []string
		for _, gk := range sortedKeys(fe.mem.ghost) {
			if strings.HasPrefix(gk, "next_") {
				gs = append(gs, "(= "+fe.mem.ghost[gk]+" "+s.ghostGet(fe.entryMem, gk, "Int")+")")
			}
		}
		fe.oblig("noalloc", "", implies(fe.guard, and(gs...)), "the function allocates no heap object (as its contract declares)", pos)
	}
}

// frameCheck: every location not covered by an assigns clause is unchanged.
func (fe *FnEnc) frameCheck(ev *Eval, pos token.Pos) {
	s := fe.s
	ct := fe.ct
	// allowed: per key, list of refs (heap) or whole
	allowedRefs := map[string][]string{}
	whole := map[string]bool{}
	ev0 := fe.newEval(fe.entryMem, fe.entryMem, fe.paramVals)
	anything := false
	for _, as := range ct.Assigns {
		if n, ok := as.E.(*EName); ok && n.Name == "anything" {
			anything = true
			continue
		}
		if c, ok := as.E.(*ECall); ok && (c.Fn == "ghost" || c.Fn == "heap") {
			if c.Fn == "ghost" {
				for _, a := range c.Args {
					if n, ok := a.(*EName); ok {
						whole["ghost:"+n.Name] = true
					}
				}
			} else {
				for _, a := range c.Args {
					if sel, ok := a.(*ESel); ok {
						if tn, ok := sel.X.(*EName); ok {
							if t := ev0.lookupType(tn.Name); t != nil {
								if st, ok := structOf(t); ok {
									for i := 0; i < st.NumFields(); i++ {
										if st.Field(i).Name() == sel.F {
											whole[s.heapKeyField(s.sortOf(t), st, i)] = true
										}
									}
								}
							}
						}
					}
				}
			}
			continue
		}
		var a *Addr
		func() {
			defer func() {
				if r := recover(); r != nil {
					if ee, ok := r.(evalErr); ok {
						fe.bindErrs = append(fe.bindErrs, "assigns "+as.Src+": "+string(ee))
						return
					}
					panic(r)
				}
			}()
			v := ev0.eval(as.E)
			switch {
			case v.View != nil:
				a = v.View.Origin
			case v.Map != nil:
				a = v.Map.Origin
			case v.Addr != nil:
				a = v.Addr
			case v.lval != nil:
				a = v.lval
			}
		}()
		if a == nil {
			continue
		}
		for _, k := range s.heapKeysOf(a) {
			if a.Root == rootHeap {
				allowedRefs[k] = append(allowedRefs[k], a.Ref)
			} else {
				whole[k] = true
			}
		}
	}
	var goals []string
	var what []string
	for _, k := range sortedKeys(fe.mem.heaps) {
		cur := fe.mem.heaps[k]
		if cur == k+"_0" || whole[k] || anything {
			continue
		}
		// objects allocated by this call are exempt
		conds := []string{}
		if nk := s.heapOwner[k]; nk != "" {
			conds = append(conds, "(< r "+s.ghostGet(fe.entryMem, nk, "Int")+")")
		}
		for _, r := range allowedRefs[k] {
			conds = append(conds, "(not (= r "+r+"))")
		}
		goals = append(goals, fmt.Sprintf("(forall ((r Int)) (=> %s (= (select %s r) (select %s_0 r))))", and(conds...), cur, k))
		what = append(what, k)
	}
	for _, ck := range sortedKeys(fe.entryMem.cells) {
		if whole["cell:"+ck] || anything {
			continue
		}
		if cur, ok := fe.mem.cells[ck]; ok && cur != fe.entryMem.cells[ck] {
			goals = append(goals, "(= "+cur+" "+fe.entryMem.cells[ck]+")")
			what = append(what, ck)
		}
	}
	for _, gk := range sortedKeys(fe.mem.ghost) {
		if strings.HasPrefix(gk, "next_") || whole["ghost:"+gk] {
			continue
		}
		cur := fe.mem.ghost[gk]
		old := s.ghostGet(fe.entryMem, gk, fe.s.ghostSortOf(gk))
		if cur != old {
			if strings.HasPrefix(gk, "lock_") {
				continue // lock state is checked by lock:released
			}
			if strings.HasPrefix(gk, "iter_") {
				continue // iteration bookkeeping of range-over-map loops
			}
			goals = append(goals, "(= "+cur+" "+old+")")
			what = append(what, "ghost "+gk)
		}
	}
	if len(goals) == 0 {
		fe.oblig("frame", "", "true", "nothing outside assigns is written (no writes at all)", pos)
		return
	}
	fe.oblig("frame", "", implies(fe.guard, and(goals...)), "unchanged outside assigns: "+strings.Join(what, ", "), pos)
}

// finalize adds the relevant global axioms to the session.
func (s *Sess) finalize() {
	if s.finalized {
		return
	}
	s.finalized = true
	g := s.g
	ev := &Eval{s: s, g: g, mem: NewMem(), old: NewMem(), env: map[string]Val{}, bound: map[string]Val{}, fe: &FnEnc{g: g, s: s}}
	ev.fe.top = ev.fe
	included := map[*Axiom]bool{}
	for changed := true; changed; {
		changed = false
		for _, ax := range g.db.Axioms {
			if included[ax] || ax == s.provingLemma {
				continue
			}
			if s.provingLemma != nil && ax.Lemma && !axiomBefore(g.db, ax, s.provingLemma) {
				continue
			}
			if ax.Manual && !s.uses[ax.Name] {
				continue
			}
			syms := specSyms(g.db, ax.E)
			rel := s.uses[ax.Name] // named explicitly (also the way to get a lemma without spec symbols)
			for _, sy := range syms {
				if s.usedSpec[sy] {
					rel = true
				}
			}
			if !rel {
				continue
			}
			included[ax] = true
			changed = true
			ev.calleePkg = ax.PkgPath
			nl := len(s.lines)
			nerr := len(ev.fe.bindErrs)
			t := ev.evalBool(ax.E)
			if len(ev.fe.bindErrs) > nerr {
				s.axiomErrs = append(s.axiomErrs, ax.Name+": "+ev.fe.bindErrs[len(ev.fe.bindErrs)-1])
				s.lines = s.lines[:nl]
				continue
			}
			// axioms must not emit script lines; move any to the axiom block
			if len(s.lines) > nl {
				s.axioms = append(s.axioms, s.lines[nl:]...)
				s.lines = s.lines[:nl]
			}
			s.axioms = append(s.axioms, "(assert "+t+") ; "+ax.Name)
			s.usedAxioms = append(s.usedAxioms, ax.Name)
		}
	}
	if len(ev.fe.bindErrs) > 0 {
		s.note("axiom evaluation errors: %s", strings.Join(ev.fe.bindErrs, "; "))
	}
}

func axiomBefore(db *SpecDB, a, b *Axiom) bool {
	for _, x := range db.Axioms {
		if x == a {
			return true
		}
		if x == b {
			return false
		}
	}
	return false
}

func specSyms(db *SpecDB, e Expr) []string {
	seen := map[string]bool{}
	var walk func(e Expr)
	walk = func(e Expr) {
		switch x := e.(type) {
		case *EName:
			if uf, ok := db.UFuns[x.Name]; ok && len(uf.Args) == 0 {
				seen[x.Name] = true
			}
		case *EBin:
			walk(x.L)
			walk(x.R)
		case *EUn:
			walk(x.X)
		case *ECall:
			if _, ok := db.UFuns[x.Fn]; ok {
				seen[x.Fn] = true
			}
			if d, ok := db.Defines[x.Fn]; ok && !seen[x.Fn] {
				seen[x.Fn] = true
				walk(d.Body)
			}
			for _, a := range x.Args {
				walk(a)
			}
		case *ESel:
			walk(x.X)
		case *EIdx:
			walk(x.X)
			walk(x.I)
		case *ESlice:
			walk(x.X)
			if x.Lo != nil {
				walk(x.Lo)
			}
			if x.Hi != nil {
				walk(x.Hi)
			}
		case *ELet:
			walk(x.Val)
			walk(x.Body)
		case *EQuant:
			walk(x.Body)
			for _, p := range x.Pats {
				for _, pe := range p {
					walk(pe)
				}
			}
		}
	}
	walk(e)
	return sortedKeys(seen)
}

// VerifyLemma produces the obligation for a lemma.
func (g *Gen) VerifyLemma(ax *Axiom) *Obligation {
	s := NewSess(g, "int")
	s.provingLemma = ax
	s.setUses(ax.Uses)
	fe := &FnEnc{g: g, s: s, sites: map[string]int{}}
	fe.top = fe
	ev := &Eval{s: s, g: g, mem: NewMem(), old: NewMem(), env: map[string]Val{}, bound: map[string]Val{}, fe: fe, calleePkg: ax.PkgPath}
	t := ev.evalBool(ax.E)
	o := &Obligation{Name: "lemma:" + ax.Name, Func: "lemma " + ax.Name, Kind: "lemma", Goal: t, Prefix: len(s.lines), Sess: s, Src: ax.Src, Props: ax.Props}
	if len(fe.bindErrs) > 0 {
		o.Goal = "false"
		o.Src = strings.Join(fe.bindErrs, "; ")
	}
	s.finalize()
	if len(s.axiomErrs) > 0 {
		o.Goal = "false"
		o.Src += "; axiom errors: " + strings.Join(s.axiomErrs, "; ")
	}
	return o
}

// VerifyLemmaAll: a lemma is one obligation, or - with [induct=k] - a base case (k = 0) and a step
// (the statement at a fixed k0 >= 0 assumed, proved at k0 + 1); the other variables stay quantified.
func (g *Gen) VerifyLemmaAll(ax *Axiom) []*Obligation {
	if ax.Induct == "" {
		return []*Obligation{g.VerifyLemma(ax)}
	}
	q, ok := ax.E.(*EQuant)
	idx := -1
	if ok && q.Forall {
		for i, v := range q.Vars {
			if v == ax.Induct && (q.Sorts[i] == "" || q.Sorts[i] == "int") {
				idx = i
			}
		}
	}
	if idx < 0 {
		o := g.VerifyLemma(ax)
		o.Goal, o.Src = "false", "induct="+ax.Induct+": the lemma is not a forall over that integer variable"
		return []*Obligation{o}
	}
	var rest Expr = q.Body
	if len(q.Vars) > 1 {
		nq := &EQuant{Forall: true, Pats: q.Pats, Body: q.Body}
		for i := range q.Vars {
			if i != idx {
				nq.Vars = append(nq.Vars, q.Vars[i])
				nq.Sorts = append(nq.Sorts, q.Sorts[i])
			}
		}
		rest = nq
	}
	mk := func(tag string, bind func(s *Sess, ev *Eval) Val, hyp bool) *Obligation {
		s := NewSess(g, "int")
		s.provingLemma = ax
		s.setUses(ax.Uses)
		fe := &FnEnc{g: g, s: s, sites: map[string]int{}}
		fe.top = fe
		ev := &Eval{s: s, g: g, mem: NewMem(), old: NewMem(), env: map[string]Val{}, bound: map[string]Val{}, fe: fe, calleePkg: ax.PkgPath}
		if hyp {
			s.funDecl = append(s.funDecl, "(declare-const ind_k Int)")
			s.assert("(>= ind_k 0)")
			ev.bound[ax.Induct] = Val{Term: "ind_k"}
			s.assert(ev.evalAssume(rest))
		}
		ev.bound[ax.Induct] = bind(s, ev)
		t := ev.evalBool(rest)
		o := &Obligation{Name: "lemma:" + ax.Name + "." + tag, Func: "lemma " + ax.Name, Kind: "lemma", Goal: t, Prefix: len(s.lines), Sess: s, Src: tag + " case of: " + ax.Src, Props: ax.Props}
		if len(fe.bindErrs) > 0 {
			o.Goal = "false"
			o.Src = strings.Join(fe.bindErrs, "; ")
		}
		s.finalize()
		if len(s.axiomErrs) > 0 {
			o.Goal = "false"
			o.Src += "; axiom errors: " + strings.Join(s.axiomErrs, "; ")
		}
		return o
	}
	base := mk("base", func(s *Sess, ev *Eval) Val { return Val{K: big.NewInt(0)} }, false)
	step := mk("step", func(s *Sess, ev *Eval) Val { return Val{Term: "(+ ind_k 1)"} }, true)
	return []*Obligation{base, step}
}

// mayAlloc: the in-repo struct types (by mangled sort id) that fn can allocate
// on the heap, following static in-repo calls.  Code outside the repository
// cannot allocate the repository's struct types; a dynamic call or an
// interface call may run arbitrary repository code ("*").
func (g *Gen) mayAlloc(fn *ssa.Function) map[string]bool {
	if g.allocCache == nil {
		g.allocCache = map[*ssa.Function]map[string]bool{}
	}
	if r, ok := g.allocCache[fn]; ok {
		return r
	}
	res := map[string]bool{}
	g.allocCache[fn] = res // cycles: optimistic fixpoint start
	var visit func(f *ssa.Function, depth int)
	seen := map[*ssa.Function]bool{}
	visit = func(f *ssa.Function, depth int) {
		if seen[f] || res["*"] {
			return
		}
		seen[f] = true
		if !g.inRepo(f) {
			return
		}
		if ct := g.contractFor(f); ct != nil && ct.Opts["noalloc"] != "" {
			return
		}
		if f.Blocks == nil {
			res["*"] = true
			return
		}
		for _, b := range f.Blocks {
			for _, ins := range b.Instrs {
				switch x := ins.(type) {
				case *ssa.Alloc:
					et := x.Type().(*types.Pointer).Elem()
					if _, ok := structOf(et); ok && x.Heap {
						res["S_"+mangle(types.TypeString(types.Unalias(et), nil))] = true
					}
				case ssa.CallInstruction:
					c := x.Common()
					if c.IsInvoke() {
						if ct := g.db.Contracts[objKey(c.Method)]; ct != nil && ct.Opts["noalloc"] != "" {
							continue
						}
						res["*"] = true
						return
					}
					switch cv := c.Value.(type) {
					case *ssa.Function:
						visit(cv, depth+1)
					case *ssa.Builtin:
					case *ssa.MakeClosure:
						visit(cv.Fn.(*ssa.Function), depth+1)
					default:
						if u, ok := c.Value.(*ssa.UnOp); ok {
							if gl, ok := u.X.(*ssa.Global); ok && !strings.HasPrefix(gl.Pkg.Pkg.Path(), modulePath) {
								continue
							}
							if gl, ok := u.X.(*ssa.Global); ok {
								if ct := g.db.Contracts[gl.Pkg.Pkg.Path()+"."+gl.Name()]; ct != nil && ct.Opts["noalloc"] != "" {
									continue
								}
							}
						}
						res["*"] = true
						return
					}
				}
			}
		}
		for _, af := range f.AnonFuncs {
			visit(af, depth+1)
		}
	}
	visit(fn, 0)
	return res
}

// immutableTypes resolves the "immutable" declarations to named struct types.
func (g *Gen) immutableTypes() []*types.Named {
	if g.immTypes != nil {
		return g.immTypes
	}
	g.immTypes = []*types.Named{}
	for _, im := range g.db.Immutables {
		if pk := g.typesPkg(im.Pkg); pk != nil {
			if t := g.parseTypeExpr(im.Type, pk); t != nil {
				if nt, ok := types.Unalias(t).(*types.Named); ok {
					g.immTypes = append(g.immTypes, nt)
				}
			}
		}
	}
	return g.immTypes
}

func (g *Gen) isImmutable(t types.Type) bool {
	for _, nt := range g.immutableTypes() {
		if types.Identical(types.Unalias(t), nt) {
			return true
		}
	}
	return false
}

// checkImmutable scans every function of the repository (outside the excepted packages): the address
// of (a part of) an immutable struct reached through a pointer may only be used to load from.
func (g *Gen) checkImmutable() []string {
	var errs []string
	for _, im := range g.db.Immutables {
		pk := g.typesPkg(im.Pkg)
		if pk == nil {
			continue
		}
		t := g.parseTypeExpr(im.Type, pk)
		if t == nil {
			errs = append(errs, "immutable: unknown type "+im.Type)
			continue
		}
		// the struct itself and the structs embedded in it by value
		imm := []types.Type{types.Unalias(t)}
		if st, ok := t.Underlying().(*types.Struct); ok {
			for i := 0; i < st.NumFields(); i++ {
				if _, isSt := st.Field(i).Type().Underlying().(*types.Struct); isSt {
					imm = append(imm, types.Unalias(st.Field(i).Type()))
				}
			}
		}
		isImm := func(x types.Type) bool {
			for _, y := range imm {
				if types.Identical(types.Unalias(x), y) {
					return true
				}
			}
			return false
		}
		var visit func(fn *ssa.Function)
		seen := map[*ssa.Function]bool{}
		visit = func(fn *ssa.Function) {
			if fn == nil || seen[fn] || fn.Blocks == nil {
				return
			}
			seen[fn] = true
			for _, af := range fn.AnonFuncs {
				visit(af)
			}
			for _, b := range fn.Blocks {
				for _, ins := range b.Instrs {
					fa, ok := ins.(*ssa.FieldAddr)
					if !ok {
						continue
					}
					pt, ok := fa.X.Type().Underlying().(*types.Pointer)
					if !ok || !isImm(pt.Elem()) {
						continue
					}
					if _, fresh := fa.X.(*ssa.Alloc); fresh {
						continue // building a new object
					}
					var bad func(v ssa.Value, depth int) string
					bad = func(v ssa.Value, depth int) string {
						if v.Referrers() == nil || depth > 6 {
							return ""
						}
						for _, r := range *v.Referrers() {
							switch x := r.(type) {
							case *ssa.UnOp, *ssa.DebugRef:
							case *ssa.FieldAddr:
								if m := bad(x, depth+1); m != "" {
									return m
								}
							case *ssa.IndexAddr:
								if m := bad(x, depth+1); m != "" {
									return m
								}
							case *ssa.Call:
								// handing the address of an embedded part to a function of this module is fine:
								// that function is scanned too
								cc := x.Common()
								if callee := cc.StaticCallee(); callee != nil && cc.Value != v && g.inRepo(callee) {
									if ptv, ok := v.Type().Underlying().(*types.Pointer); ok && isImm(ptv.Elem()) {
										continue
									}
								}
								return fmt.Sprintf("%s: the address of a field of %s is passed to a call", g.fset.Position(r.Pos()), im.Type)
							case *ssa.Slice:
								// slicing an array field: reads only if the slice is just passed on; treated as a use
								return fmt.Sprintf("%s: a field of %s is sliced (may be written through the slice)", g.fset.Position(r.Pos()), im.Type)
							default:
								return fmt.Sprintf("%s: a field of %s is written or its address escapes (%T)", g.fset.Position(r.Pos()), im.Type, r)
							}
						}
						return ""
					}
					if m := bad(fa, 0); m != "" {
						errs = append(errs, m)
					}
				}
			}
		}
		for path, sp := range g.spkgs {
			if !strings.HasPrefix(path, modulePath) {
				continue
			}
			skip := false
			for _, e := range im.Except {
				if strings.Contains(path, e) {
					skip = true
				}
			}
			if skip {
				continue
			}
			for _, m := range sp.Members {
				switch x := m.(type) {
				case *ssa.Function:
					visit(x)
				case *ssa.Type:
					for _, tt := range []types.Type{x.Type(), types.NewPointer(x.Type())} {
						ms := sp.Prog.MethodSets.MethodSet(tt)
						for i := 0; i < ms.Len(); i++ {
							visit(sp.Prog.MethodValue(ms.At(i)))
						}
					}
				}
			}
		}
	}
	sort.Strings(errs)
	return errs
}
