package main

// Replay of solver counterexamples against the real code: an in-package Go
// test is generated from the model and injected with `go test -overlay`
// (nothing is written into the repository).

import (
	"bytes"
	"context"
	"encoding/json"
	"fmt"
	"go/types"
	"math/big"
	"os"
	"os/exec"
	"path/filepath"
	"regexp"
	"strings"
	"time"
)

type ReplayResult struct {
	Path       string
	Reproduced bool
}

// Obs is a term whose model value is requested for replay.
type Obs struct {
	GoLval string // Go lvalue to assign (relative to the generated variables)
	Term   string
	Type   types.Type
	Kind   string // scalar | len | elem
	Param  string
	Index  int
}

func modelInt(v string) (*big.Int, bool) {
	v = strings.TrimSpace(v)
	v = strings.ReplaceAll(strings.ReplaceAll(v, "( ", "("), " )", ")")
	if strings.HasPrefix(v, "(- ") {
		x, ok := new(big.Int).SetString(strings.TrimSuffix(strings.TrimPrefix(v, "(- "), ")"), 10)
		if ok {
			return x.Neg(x), true
		}
		return nil, false
	}
	if strings.HasPrefix(v, "#x") {
		return new(big.Int).SetString(v[2:], 16)
	}
	if strings.HasPrefix(v, "#b") {
		return new(big.Int).SetString(v[2:], 2)
	}
	if strings.HasPrefix(v, "(_ bv") {
		f := strings.Fields(v)
		return new(big.Int).SetString(strings.TrimPrefix(f[1], "bv"), 10)
	}
	return new(big.Int).SetString(v, 10)
}

func qualifier(pkg *types.Package) types.Qualifier {
	return func(p *types.Package) string {
		if p == pkg {
			return ""
		}
		return p.Name()
	}
}

var reGetValue = regexp.MustCompile(`(?s)OBS (\d+)\s*\n\(\((.*?)\)\)\s*\n`)

// queryObservations re-runs the refuting solver asking for the observation terms.
func queryObservations(o *Obligation, obs []Obs, solver string) map[int]string {
	script := o.Script()
	script = strings.Replace(script, "(get-model)\n", "", 1)
	var b strings.Builder
	b.WriteString(script)
	for i, ob := range obs {
		fmt.Fprintf(&b, "(echo \"OBS %d\")\n(get-value (%s))\n", i, ob.Term)
	}
	dir, _ := os.MkdirTemp("", "govc-obs")
	defer os.RemoveAll(dir)
	f := filepath.Join(dir, "q.smt2")
	os.WriteFile(f, []byte(b.String()), 0o644)
	res := map[int]string{}
	order := []Solver{}
	for _, sv := range solvers {
		if sv.Name == solver {
			order = append(order, sv)
		}
	}
	for _, sv := range solvers {
		if sv.Name != solver {
			order = append(order, sv)
		}
	}
	for _, sv := range order {
		r := runSolver(context.Background(), sv, f, 20)
		if r.status != "sat" {
			continue
		}
		toks := r.out
		idx := 0
		for {
			j := strings.Index(toks[idx:], "OBS ")
			if j < 0 {
				break
			}
			idx += j + 4
			var n int
			fmt.Sscanf(toks[idx:], "%d", &n)
			nl := strings.Index(toks[idx:], "\n")
			if nl < 0 {
				break
			}
			rest := toks[idx+nl+1:]
			ts := sexprTokens(rest)
			end := skipSexpr(ts, 0)
			// ((term value)) -> value is the last sexpr inside
			if end >= 4 {
				inner := ts[2 : end-2]
				// skip the term
				k := skipSexpr(inner, 0)
				res[n] = strings.Join(inner[k:], " ")
			}
		}
		break
	}
	return res
}

var replayDB *SpecDB

// goExpr translates a contract expression to Go source over *big.Int / bool.
func goExpr(e Expr, vars map[string]string) (string, bool) {
	switch x := e.(type) {
	case *ENum:
		return fmt.Sprintf("bi(%q)", x.V.String()), true
	case *EBool:
		return fmt.Sprint(x.V), true
	case *EName:
		if v, ok := vars[x.Name]; ok {
			return v, true
		}
		return "", false
	case *EUn:
		a, ok := goExpr(x.X, vars)
		if !ok {
			return "", false
		}
		switch x.Op {
		case "!":
			return "(!" + a + ")", true
		case "-":
			return "neg(" + a + ")", true
		}
		return "", false
	case *EBin:
		if n, ok := x.R.(*EName); ok && n.Name == "nil" && (x.Op == "==" || x.Op == "!=") {
			if a, ok := goExpr(x.L, vars); ok {
				return "(" + a + " " + x.Op + " nil)", true
			}
			return "", false
		}
		a, ok1 := goExpr(x.L, vars)
		b, ok2 := goExpr(x.R, vars)
		if !ok1 || !ok2 {
			return "", false
		}
		switch x.Op {
		case "&&":
			return "(" + a + " && " + b + ")", true
		case "||":
			return "(" + a + " || " + b + ")", true
		case "==>":
			return "(!" + a + " || " + b + ")", true
		case "<==>":
			return "(" + a + " == " + b + ")", true
		case "+":
			return "add(" + a + "," + b + ")", true
		case "-":
			return "sub(" + a + "," + b + ")", true
		case "*":
			return "mul(" + a + "," + b + ")", true
		case "/":
			return "div(" + a + "," + b + ")", true
		case "%":
			return "mod(" + a + "," + b + ")", true
		case "<<":
			return "shl(" + a + "," + b + ")", true
		case ">>":
			return "shr(" + a + "," + b + ")", true
		case "&":
			return "band(" + a + "," + b + ")", true
		case "|":
			return "bor(" + a + "," + b + ")", true
		case "^":
			return "bxor(" + a + "," + b + ")", true
		case "==":
			return "eq(" + a + "," + b + ")", true
		case "!=":
			return "(!eq(" + a + "," + b + "))", true
		case "<":
			return "(cmp(" + a + "," + b + ") < 0)", true
		case "<=":
			return "(cmp(" + a + "," + b + ") <= 0)", true
		case ">":
			return "(cmp(" + a + "," + b + ") > 0)", true
		case ">=":
			return "(cmp(" + a + "," + b + ") >= 0)", true
		}
	case *ESel:
		a, ok := goExpr(x.X, vars)
		if !ok {
			return "", false
		}
		return a + "." + x.F, true
	case *EIdx:
		a, ok1 := goExpr(x.X, vars)
		i, ok2 := goExpr(x.I, vars)
		if !ok1 || !ok2 {
			return "", false
		}
		return a + "[int(tb(" + i + ").Int64())]", true
	case *ECall:
		if replayDB != nil {
			if d, ok := replayDB.Defines[x.Fn]; ok && !d.Rec && len(d.Params) == len(x.Args) {
				nv := map[string]string{}
				for i, p := range d.Params {
					a, ok := goExpr(x.Args[i], vars)
					if !ok {
						return "", false
					}
					nv[p] = a
				}
				return goExpr(d.Body, nv)
			}
		}
		if x.Fn == "len" && len(x.Args) == 1 {
			a, ok := goExpr(x.Args[0], vars)
			if ok {
				return "len(" + a + ")", true
			}
		}
		if x.Fn == "ispow2" && len(x.Args) == 1 {
			a, ok := goExpr(x.Args[0], vars)
			if ok {
				return "ispow2(" + a + ")", true
			}
		}
		if x.Fn == "ite" && len(x.Args) == 3 {
			c, ok0 := goExpr(x.Args[0], vars)
			a, ok1 := goExpr(x.Args[1], vars)
			b, ok2 := goExpr(x.Args[2], vars)
			if ok0 && ok1 && ok2 {
				return "ite(" + c + "," + a + "," + b + ")", true
			}
		}
		if (x.Fn == "min" || x.Fn == "max") && len(x.Args) == 2 {
			a, ok1 := goExpr(x.Args[0], vars)
			b, ok2 := goExpr(x.Args[1], vars)
			if ok1 && ok2 {
				return x.Fn + "B(" + a + "," + b + ")", true
			}
		}
	}
	return "", false
}

const replayHelpers = `
func bi(s string) *big.Int { v, _ := new(big.Int).SetString(s, 10); return v }
func add(a, b interface{}) *big.Int { return new(big.Int).Add(tb(a), tb(b)) }
func sub(a, b interface{}) *big.Int { return new(big.Int).Sub(tb(a), tb(b)) }
func mul(a, b interface{}) *big.Int { return new(big.Int).Mul(tb(a), tb(b)) }
func div(a, b interface{}) *big.Int { if tb(b).Sign() == 0 { return big.NewInt(0) }; return new(big.Int).Div(tb(a), tb(b)) }
func mod(a, b interface{}) *big.Int { if tb(b).Sign() == 0 { return big.NewInt(0) }; return new(big.Int).Mod(tb(a), tb(b)) }
func shl(a, b interface{}) *big.Int { return new(big.Int).Lsh(tb(a), uint(tb(b).Uint64())) }
func shr(a, b interface{}) *big.Int { return new(big.Int).Rsh(tb(a), uint(tb(b).Uint64())) }
func band(a, b interface{}) *big.Int { return new(big.Int).And(tb(a), tb(b)) }
func bor(a, b interface{}) *big.Int { return new(big.Int).Or(tb(a), tb(b)) }
func bxor(a, b interface{}) *big.Int { return new(big.Int).Xor(tb(a), tb(b)) }
func ispow2(a interface{}) bool { v := tb(a); return v.Sign() > 0 && new(big.Int).And(v, new(big.Int).Sub(v, big.NewInt(1))).Sign() == 0 }
func neg(a interface{}) *big.Int { return new(big.Int).Neg(tb(a)) }
func cmp(a, b interface{}) int { return tb(a).Cmp(tb(b)) }
func minB(a, b interface{}) *big.Int { if cmp(a, b) <= 0 { return tb(a) }; return tb(b) }
func maxB(a, b interface{}) *big.Int { if cmp(a, b) >= 0 { return tb(a) }; return tb(b) }
func ite(c bool, a, b interface{}) interface{} { if c { return a }; return b }
func eq(a, b interface{}) bool {
	if x, ok := a.(bool); ok { y, _ := b.(bool); return x == y }
	if isNum(a) && isNum(b) { return tb(a).Cmp(tb(b)) == 0 }
	return reflect.DeepEqual(a, b)
}
func isNum(a interface{}) bool {
	if _, ok := a.(*big.Int); ok { return true }
	k := reflect.ValueOf(a).Kind()
	return k >= reflect.Int && k <= reflect.Uintptr
}
func tb(a interface{}) *big.Int {
	if v, ok := a.(*big.Int); ok { return v }
	rv := reflect.ValueOf(a)
	switch {
	case rv.Kind() >= reflect.Int && rv.Kind() <= reflect.Int64:
		return big.NewInt(rv.Int())
	case rv.Kind() >= reflect.Uint && rv.Kind() <= reflect.Uintptr:
		return new(big.Int).SetUint64(rv.Uint())
	}
	return big.NewInt(0)
}
`

// Replay tries to reproduce a failed obligation on the real code.
func Replay(g *Gen, repo, replayDir, prop string, o *Obligation, results []*FuncResult) ReplayResult {
	content := map[string]interface{}{
		"property":   prop,
		"obligation": o.Name,
		"status":     o.Status,
		"goal":       o.Src,
		"at":         o.Pos,
		"verifier":   o.Output,
	}
	rr := ReplayResult{}
	replayDB = g.db
	finish := func(note string) ReplayResult {
		content["replay"] = note
		content["reproduced_on_real_code"] = rr.Reproduced
		rr.Path = writeReplay(replayDir, prop, o.Name, content)
		return rr
	}
	var fr *FuncResult
	for _, r := range results {
		if r.Func == o.Func {
			fr = r
		}
	}
	if o.Status != "refuted" || fr == nil || fr.fe == nil {
		return finish("no counterexample from the verifier (" + o.Status + ")")
	}
	fe := fr.fe
	if fe.staticContractCalls > 0 {
		// the counterexample speaks about callee contracts; re-generate the obligation with the
		// in-repo callees inlined so that the model covers the whole path (replay only)
		g.inlineForReplay = true
		fr2 := g.VerifyFunction(fr.Contract)
		g.inlineForReplay = false
		for _, o2 := range fr2.Obls {
			if o2.Name == o.Name && fr2.fe != nil {
				o2.Except = o.Except
				DischargeAll([]*Obligation{o2}, 20, 1, false)
				if o2.Status == "refuted" {
					content["replay_mode"] = "callees inlined for the replay model"
					fe, o = fr2.fe, o2
				}
			}
		}
	}
	rb := newRBuilder(g, fe)
	rb.planAll()
	vals := queryObservations(o, rb.obs, o.Solver)
	model := map[string]string{}
	for i, ob := range rb.obs {
		if v, ok := vals[i]; ok && len(model) < 400 {
			model[ob.GoLval] = v
		}
	}
	content["model"] = model
	src, note, ok := rb.genTest(o, vals)
	if !ok {
		return finish("counterexample not replayable: " + note)
	}
	content["test_source"] = src
	pkgDir := filepath.Dir(g.fset.Position(fe.fn.Pos()).Filename)
	tmp, _ := os.MkdirTemp("", "govc-replay")
	defer os.RemoveAll(tmp)
	testFile := filepath.Join(tmp, "zz_verif_replay_test.go")
	os.WriteFile(testFile, []byte(src), 0o644)
	ov := map[string]interface{}{"Replace": map[string]string{filepath.Join(pkgDir, "zz_verif_replay_test.go"): testFile}}
	ovData, _ := json.Marshal(ov)
	ovFile := filepath.Join(tmp, "ov.json")
	os.WriteFile(ovFile, ovData, 0o644)
	ctx, cancel := context.WithTimeout(context.Background(), 120*time.Second)
	defer cancel()
	cmd := exec.CommandContext(ctx, "go", "test", "-overlay", ovFile, "-vet=off", "-tags", "verif", "-v", "-count=1", "-timeout", "60s", "-run", "^TestZZVerifReplay$", ".")
	cmd.Dir = pkgDir
	cmd.Env = append(os.Environ(), "GOFLAGS=-mod=mod", "GOPROXY=off", "GOSUMDB=off", "GOTOOLCHAIN=local")
	var out bytes.Buffer
	cmd.Stdout = &out
	cmd.Stderr = &out
	cmd.Run()
	txt := out.String()
	content["replay_output"] = truncate(txt, 4000)
	switch {
	case strings.Contains(txt, "REPLAY-REPRODUCED") && !strings.Contains(txt, "REPLAY-NOT-REPRODUCED: model does not satisfy"):
		rr.Reproduced = true
		return finish("counterexample reproduced on the real code")
	case strings.Contains(txt, "REPLAY-NOT-REPRODUCED"):
		return finish("the verifier's counterexample did not reproduce on the real code")
	}
	return finish("replay test did not run to a verdict")
}

// goExprErr handles `err == nil` / `err != nil` on error-typed results.
func goExprErr(e Expr, vars map[string]string, ct *Contract, res *types.Tuple, resNames []string) (string, bool) {
	errNames := map[string]string{}
	for i, n := range ct.Results {
		if i < res.Len() && i < len(resNames) && types.Identical(res.At(i).Type(), types.Universe.Lookup("error").Type()) {
			errNames[n] = resNames[i]
		}
	}
	var rewrite func(e Expr) Expr
	rewrite = func(e Expr) Expr {
		switch x := e.(type) {
		case *EBin:
			if x.Op == "==" || x.Op == "!=" {
				if n, ok := x.L.(*EName); ok {
					if rn, isErr := errNames[n.Name]; isErr {
						if r, ok := x.R.(*EName); ok && r.Name == "nil" {
							return &EName{"@" + x.Op + rn}
						}
					}
				}
			}
			return &EBin{x.Op, rewrite(x.L), rewrite(x.R)}
		case *EUn:
			return &EUn{x.Op, rewrite(x.X)}
		}
		return e
	}
	e2 := rewrite(e)
	v2 := map[string]string{}
	for k, v := range vars {
		v2[k] = v
	}
	for _, rn := range errNames {
		v2["@=="+rn] = "(" + rn + " == nil)"
		v2["@!="+rn] = "(" + rn + " != nil)"
	}
	return goExpr(e2, v2)
}

func collectImports(t types.Type, self *types.Package, imports map[string]bool) {
	switch u := types.Unalias(t).(type) {
	case *types.Named:
		if p := u.Obj().Pkg(); p != nil && p != self {
			imports[p.Path()] = true
		}
	case *types.Pointer:
		collectImports(u.Elem(), self, imports)
	case *types.Slice:
		collectImports(u.Elem(), self, imports)
	case *types.Array:
		collectImports(u.Elem(), self, imports)
	}
}
