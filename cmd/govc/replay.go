package main

// Replay of solver counterexamples against the real code: an in-package Go
// test is generated from the model and injected with `go test -overlay`
// (nothing is written into the repository).

import (
	"bytes"
	"context"
	"encoding/json"
	"fmt"
	"go/types"
	"math/big"
	"os"
	"os/exec"
	"path/filepath"
	"regexp"
	"strings"
	"time"
)

type ReplayResult struct {
	Path       string
	Reproduced bool
}

// Obs is a term whose model value is requested for replay.
type Obs struct {
	GoLval string // Go lvalue to assign (relative to the generated variables)
	Term   string
	Type   types.Type
	Kind   string // scalar | len | elem
	Param  string
	Index  int
}

func modelInt(v string) (*big.Int, bool) {
	v = strings.TrimSpace(v)
	v = strings.ReplaceAll(strings.ReplaceAll(v, "( ", "("), " )", ")")
	if strings.HasPrefix(v, "(- ") {
		x, ok := new(big.Int).SetString(strings.TrimSuffix(strings.TrimPrefix(v, "(- "), ")"), 10)
		if ok {
			return x.Neg(x), true
		}
		return nil, false
	}
	if strings.HasPrefix(v, "#x") {
		return new(big.Int).SetString(v[2:], 16)
	}
	if strings.HasPrefix(v, "#b") {
		return new(big.Int).SetString(v[2:], 2)
	}
	if strings.HasPrefix(v, "(_ bv") {
		f := strings.Fields(v)
		return new(big.Int).SetString(strings.TrimPrefix(f[1], "bv"), 10)
	}
	return new(big.Int).SetString(v, 10)
}

func qualifier(pkg *types.Package) types.Qualifier {
	return func(p *types.Package) string {
		if p == pkg {
			return ""
		}
		return p.Name()
	}
}

// observations lists the terms to read from the model for the function's parameters.
func (fe *FnEnc) observations() []Obs {
	var out []Obs
	s := fe.s
	off := 0
	if fe.fn.Signature.Recv() != nil {
		off = 1
	}
	for i, p := range fe.fn.Params {
		name := fmt.Sprintf("a%d", i)
		_ = off
		cn := fe.paramConsts[i].Const
		t := p.Type()
		switch u := types.Unalias(t).Underlying().(type) {
		case *types.Basic:
			out = append(out, Obs{GoLval: name, Term: cn, Type: t, Kind: "scalar", Param: name})
		case *types.Pointer:
			if st, ok := structOf(u.Elem()); ok {
				sn := s.sortOf(u.Elem())
				var walk func(st *types.Struct, prefix string, term func(string) string, top bool, tsn string)
				walk = func(st *types.Struct, prefix string, term func(string) string, top bool, tsn string) {
					for j := 0; j < st.NumFields(); j++ {
						f := st.Field(j)
						var base string
						if top {
							k := "H_" + tsn + "_" + f.Name()
							if _, ok := s.heapSort[k]; !ok {
								continue
							}
							base = "(select " + k + "_0 " + cn + ")"
						} else {
							base = "(" + fieldAcc(tsn, st, j) + " " + term("") + ")"
						}
						switch fu := types.Unalias(f.Type()).Underlying().(type) {
						case *types.Basic:
							if fu.Info()&(types.IsInteger|types.IsBoolean) != 0 {
								out = append(out, Obs{GoLval: prefix + "." + f.Name(), Term: base, Type: f.Type(), Kind: "scalar", Param: name})
							}
						case *types.Struct:
							b := base
							walk(fu, prefix+"."+f.Name(), func(string) string { return b }, false, s.sortOf(f.Type()))
						case *types.Array:
							if fu.Len() <= 64 {
								if eb, ok := fu.Elem().Underlying().(*types.Basic); ok && eb.Info()&types.IsInteger != 0 {
									for k := int64(0); k < fu.Len(); k++ {
										out = append(out, Obs{GoLval: fmt.Sprintf("%s.%s[%d]", prefix, f.Name(), k), Term: fmt.Sprintf("(select %s %d)", base, k), Type: fu.Elem(), Kind: "scalar", Param: name})
									}
								}
							}
						}
					}
				}
				walk(st, name, nil, true, sn)
			}
		case *types.Slice:
			es := s.sortOf(u.Elem())
			out = append(out, Obs{GoLval: name, Term: s.seqLen(es, cn), Type: t, Kind: "len", Param: name})
			if eb, ok := u.Elem().Underlying().(*types.Basic); ok && eb.Info()&types.IsInteger != 0 {
				for k := 0; k < 16; k++ {
					out = append(out, Obs{GoLval: fmt.Sprintf("%s[%d]", name, k), Term: fmt.Sprintf("(select %s %d)", s.seqArr(es, cn), k), Type: u.Elem(), Kind: "elem", Param: name, Index: k})
				}
			}
		}
	}
	return out
}

var reGetValue = regexp.MustCompile(`(?s)OBS (\d+)\s*\n\(\((.*?)\)\)\s*\n`)

// queryObservations re-runs the refuting solver asking for the observation terms.
func queryObservations(o *Obligation, obs []Obs, solver string) map[int]string {
	script := o.Script()
	script = strings.Replace(script, "(get-model)\n", "", 1)
	var b strings.Builder
	b.WriteString(script)
	for i, ob := range obs {
		fmt.Fprintf(&b, "(echo \"OBS %d\")\n(get-value (%s))\n", i, ob.Term)
	}
	dir, _ := os.MkdirTemp("", "govc-obs")
	defer os.RemoveAll(dir)
	f := filepath.Join(dir, "q.smt2")
	os.WriteFile(f, []byte(b.String()), 0o644)
	res := map[int]string{}
	order := []Solver{}
	for _, sv := range solvers {
		if sv.Name == solver {
			order = append(order, sv)
		}
	}
	for _, sv := range solvers {
		if sv.Name != solver {
			order = append(order, sv)
		}
	}
	for _, sv := range order {
		r := runSolver(context.Background(), sv, f, 20)
		if r.status != "sat" {
			continue
		}
		toks := r.out
		idx := 0
		for {
			j := strings.Index(toks[idx:], "OBS ")
			if j < 0 {
				break
			}
			idx += j + 4
			var n int
			fmt.Sscanf(toks[idx:], "%d", &n)
			nl := strings.Index(toks[idx:], "\n")
			if nl < 0 {
				break
			}
			rest := toks[idx+nl+1:]
			ts := sexprTokens(rest)
			end := skipSexpr(ts, 0)
			// ((term value)) -> value is the last sexpr inside
			if end >= 4 {
				inner := ts[2 : end-2]
				// skip the term
				k := skipSexpr(inner, 0)
				res[n] = strings.Join(inner[k:], " ")
			}
		}
		break
	}
	return res
}

var replayDB *SpecDB

// goExpr translates a contract expression to Go source over *big.Int / bool.
func goExpr(e Expr, vars map[string]string) (string, bool) {
	switch x := e.(type) {
	case *ENum:
		return fmt.Sprintf("bi(%q)", x.V.String()), true
	case *EBool:
		return fmt.Sprint(x.V), true
	case *EName:
		if v, ok := vars[x.Name]; ok {
			return v, true
		}
		return "", false
	case *EUn:
		a, ok := goExpr(x.X, vars)
		if !ok {
			return "", false
		}
		switch x.Op {
		case "!":
			return "(!" + a + ")", true
		case "-":
			return "neg(" + a + ")", true
		}
		return "", false
	case *EBin:
		if n, ok := x.R.(*EName); ok && n.Name == "nil" && (x.Op == "==" || x.Op == "!=") {
			if a, ok := goExpr(x.L, vars); ok {
				return "(" + a + " " + x.Op + " nil)", true
			}
			return "", false
		}
		a, ok1 := goExpr(x.L, vars)
		b, ok2 := goExpr(x.R, vars)
		if !ok1 || !ok2 {
			return "", false
		}
		switch x.Op {
		case "&&":
			return "(" + a + " && " + b + ")", true
		case "||":
			return "(" + a + " || " + b + ")", true
		case "==>":
			return "(!" + a + " || " + b + ")", true
		case "<==>":
			return "(" + a + " == " + b + ")", true
		case "+":
			return "add(" + a + "," + b + ")", true
		case "-":
			return "sub(" + a + "," + b + ")", true
		case "*":
			return "mul(" + a + "," + b + ")", true
		case "/":
			return "div(" + a + "," + b + ")", true
		case "%":
			return "mod(" + a + "," + b + ")", true
		case "<<":
			return "shl(" + a + "," + b + ")", true
		case ">>":
			return "shr(" + a + "," + b + ")", true
		case "&":
			return "band(" + a + "," + b + ")", true
		case "|":
			return "bor(" + a + "," + b + ")", true
		case "^":
			return "bxor(" + a + "," + b + ")", true
		case "==":
			return "eq(" + a + "," + b + ")", true
		case "!=":
			return "(!eq(" + a + "," + b + "))", true
		case "<":
			return "(cmp(" + a + "," + b + ") < 0)", true
		case "<=":
			return "(cmp(" + a + "," + b + ") <= 0)", true
		case ">":
			return "(cmp(" + a + "," + b + ") > 0)", true
		case ">=":
			return "(cmp(" + a + "," + b + ") >= 0)", true
		}
	case *ESel:
		a, ok := goExpr(x.X, vars)
		if !ok {
			return "", false
		}
		return a + "." + x.F, true
	case *EIdx:
		a, ok1 := goExpr(x.X, vars)
		i, ok2 := goExpr(x.I, vars)
		if !ok1 || !ok2 {
			return "", false
		}
		return a + "[int(tb(" + i + ").Int64())]", true
	case *ECall:
		if replayDB != nil {
			if d, ok := replayDB.Defines[x.Fn]; ok && !d.Rec && len(d.Params) == len(x.Args) {
				nv := map[string]string{}
				for i, p := range d.Params {
					a, ok := goExpr(x.Args[i], vars)
					if !ok {
						return "", false
					}
					nv[p] = a
				}
				return goExpr(d.Body, nv)
			}
		}
		if x.Fn == "len" && len(x.Args) == 1 {
			a, ok := goExpr(x.Args[0], vars)
			if ok {
				return "len(" + a + ")", true
			}
		}
		if x.Fn == "ispow2" && len(x.Args) == 1 {
			a, ok := goExpr(x.Args[0], vars)
			if ok {
				return "ispow2(" + a + ")", true
			}
		}
		if x.Fn == "ite" && len(x.Args) == 3 {
			c, ok0 := goExpr(x.Args[0], vars)
			a, ok1 := goExpr(x.Args[1], vars)
			b, ok2 := goExpr(x.Args[2], vars)
			if ok0 && ok1 && ok2 {
				return "ite(" + c + "," + a + "," + b + ")", true
			}
		}
		if (x.Fn == "min" || x.Fn == "max") && len(x.Args) == 2 {
			a, ok1 := goExpr(x.Args[0], vars)
			b, ok2 := goExpr(x.Args[1], vars)
			if ok1 && ok2 {
				return x.Fn + "B(" + a + "," + b + ")", true
			}
		}
	}
	return "", false
}

const replayHelpers = `
func bi(s string) *big.Int { v, _ := new(big.Int).SetString(s, 10); return v }
func add(a, b interface{}) *big.Int { return new(big.Int).Add(tb(a), tb(b)) }
func sub(a, b interface{}) *big.Int { return new(big.Int).Sub(tb(a), tb(b)) }
func mul(a, b interface{}) *big.Int { return new(big.Int).Mul(tb(a), tb(b)) }
func div(a, b interface{}) *big.Int { if tb(b).Sign() == 0 { return big.NewInt(0) }; return new(big.Int).Div(tb(a), tb(b)) }
func mod(a, b interface{}) *big.Int { if tb(b).Sign() == 0 { return big.NewInt(0) }; return new(big.Int).Mod(tb(a), tb(b)) }
func shl(a, b interface{}) *big.Int { return new(big.Int).Lsh(tb(a), uint(tb(b).Uint64())) }
func shr(a, b interface{}) *big.Int { return new(big.Int).Rsh(tb(a), uint(tb(b).Uint64())) }
func band(a, b interface{}) *big.Int { return new(big.Int).And(tb(a), tb(b)) }
func bor(a, b interface{}) *big.Int { return new(big.Int).Or(tb(a), tb(b)) }
func bxor(a, b interface{}) *big.Int { return new(big.Int).Xor(tb(a), tb(b)) }
func ispow2(a interface{}) bool { v := tb(a); return v.Sign() > 0 && new(big.Int).And(v, new(big.Int).Sub(v, big.NewInt(1))).Sign() == 0 }
func neg(a interface{}) *big.Int { return new(big.Int).Neg(tb(a)) }
func cmp(a, b interface{}) int { return tb(a).Cmp(tb(b)) }
func minB(a, b interface{}) *big.Int { if cmp(a, b) <= 0 { return tb(a) }; return tb(b) }
func maxB(a, b interface{}) *big.Int { if cmp(a, b) >= 0 { return tb(a) }; return tb(b) }
func ite(c bool, a, b interface{}) interface{} { if c { return a }; return b }
func eq(a, b interface{}) bool {
	if x, ok := a.(bool); ok { y, _ := b.(bool); return x == y }
	if isNum(a) && isNum(b) { return tb(a).Cmp(tb(b)) == 0 }
	return reflect.DeepEqual(a, b)
}
func isNum(a interface{}) bool {
	if _, ok := a.(*big.Int); ok { return true }
	k := reflect.ValueOf(a).Kind()
	return k >= reflect.Int && k <= reflect.Uintptr
}
func tb(a interface{}) *big.Int {
	if v, ok := a.(*big.Int); ok { return v }
	rv := reflect.ValueOf(a)
	switch {
	case rv.Kind() >= reflect.Int && rv.Kind() <= reflect.Int64:
		return big.NewInt(rv.Int())
	case rv.Kind() >= reflect.Uint && rv.Kind() <= reflect.Uintptr:
		return new(big.Int).SetUint64(rv.Uint())
	}
	return big.NewInt(0)
}
`

// Replay tries to reproduce a failed obligation on the real code.
func Replay(g *Gen, repo, replayDir, prop string, o *Obligation, results []*FuncResult) ReplayResult {
	content := map[string]interface{}{
		"property":   prop,
		"obligation": o.Name,
		"status":     o.Status,
		"goal":       o.Src,
		"at":         o.Pos,
		"verifier":   o.Output,
	}
	rr := ReplayResult{}
	replayDB = g.db
	finish := func(note string) ReplayResult {
		content["replay"] = note
		content["reproduced_on_real_code"] = rr.Reproduced
		rr.Path = writeReplay(replayDir, prop, o.Name, content)
		return rr
	}
	var fr *FuncResult
	for _, r := range results {
		if r.Func == o.Func {
			fr = r
		}
	}
	if o.Status != "refuted" || fr == nil || fr.fe == nil {
		return finish("no counterexample from the verifier (" + o.Status + ")")
	}
	fe := fr.fe
	obs := fe.observations()
	vals := queryObservations(o, obs, o.Solver)
	model := map[string]string{}
	for i, ob := range obs {
		if v, ok := vals[i]; ok {
			model[ob.GoLval] = v
		}
	}
	content["model"] = model
	src, note, ok := genReplayTest(g, fe, o, obs, vals)
	if !ok {
		return finish("counterexample not replayable: " + note)
	}
	content["test_source"] = src
	pkgDir := filepath.Dir(g.fset.Position(fe.fn.Pos()).Filename)
	tmp, _ := os.MkdirTemp("", "govc-replay")
	defer os.RemoveAll(tmp)
	testFile := filepath.Join(tmp, "zz_verif_replay_test.go")
	os.WriteFile(testFile, []byte(src), 0o644)
	ov := map[string]interface{}{"Replace": map[string]string{filepath.Join(pkgDir, "zz_verif_replay_test.go"): testFile}}
	ovData, _ := json.Marshal(ov)
	ovFile := filepath.Join(tmp, "ov.json")
	os.WriteFile(ovFile, ovData, 0o644)
	ctx, cancel := context.WithTimeout(context.Background(), 120*time.Second)
	defer cancel()
	cmd := exec.CommandContext(ctx, "go", "test", "-overlay", ovFile, "-vet=off", "-tags", "verif", "-v", "-count=1", "-timeout", "60s", "-run", "^TestZZVerifReplay$", ".")
	cmd.Dir = pkgDir
	cmd.Env = append(os.Environ(), "GOFLAGS=-mod=mod", "GOPROXY=off", "GOSUMDB=off", "GOTOOLCHAIN=local")
	var out bytes.Buffer
	cmd.Stdout = &out
	cmd.Stderr = &out
	cmd.Run()
	txt := out.String()
	content["replay_output"] = truncate(txt, 4000)
	switch {
	case strings.Contains(txt, "REPLAY-REPRODUCED"):
		rr.Reproduced = true
		return finish("counterexample reproduced on the real code")
	case strings.Contains(txt, "REPLAY-NOT-REPRODUCED"):
		return finish("the verifier's counterexample did not reproduce on the real code")
	}
	return finish("replay test did not run to a verdict")
}

func genReplayTest(g *Gen, fe *FnEnc, o *Obligation, obs []Obs, vals map[int]string) (string, string, bool) {
	fn := fe.fn
	pkg := fn.Pkg.Pkg
	q := qualifier(pkg)
	var b strings.Builder
	fmt.Fprintf(&b, "package %s\n\nimport (\n\t\"fmt\"\n\t\"math/big\"\n\t\"reflect\"\n\t\"testing\"\n", pkg.Name())
	imports := map[string]bool{}
	var body strings.Builder
	var argNames []string
	lens := map[string]int{}
	for i, ob := range obs {
		if ob.Kind == "len" {
			if v, ok := vals[i]; ok {
				if n, ok := modelInt(v); ok && n.IsInt64() && n.Int64() <= 1<<16 {
					lens[ob.Param] = int(n.Int64())
				} else {
					return "", "slice length in the model too large", false
				}
			}
		}
	}
	for i, p := range fn.Params {
		name := fmt.Sprintf("a%d", i)
		argNames = append(argNames, name)
		t := p.Type()
		ts := types.TypeString(t, q)
		collectImports(t, pkg, imports)
		switch u := types.Unalias(t).Underlying().(type) {
		case *types.Basic:
			fmt.Fprintf(&body, "\tvar %s %s\n", name, ts)
		case *types.Pointer:
			if _, ok := structOf(u.Elem()); ok {
				fmt.Fprintf(&body, "\t%s := new(%s)\n", name, types.TypeString(u.Elem(), q))
			} else {
				return "", "pointer parameter to non-struct", false
			}
		case *types.Slice:
			fmt.Fprintf(&body, "\t%s := make(%s, %d)\n", name, ts, lens[name])
		default:
			return "", fmt.Sprintf("parameter of type %s", ts), false
		}
	}
	for i, ob := range obs {
		v, ok := vals[i]
		if !ok || ob.Kind == "len" {
			continue
		}
		if ob.Kind == "elem" && ob.Index >= lens[ob.Param] {
			continue
		}
		if v == "true" || v == "false" {
			fmt.Fprintf(&body, "\t%s = %s\n", ob.GoLval, v)
			continue
		}
		n, ok := modelInt(v)
		if !ok {
			continue
		}
		ts := types.TypeString(ob.Type, q)
		collectImports(ob.Type, pkg, imports)
		if w, signed, ok := intInfo(ob.Type); ok {
			// bring the model value into the type's range (unconstrained locations may carry any integer)
			n = new(big.Int).Mod(n, pow2(w))
			if signed && n.Cmp(pow2(w-1)) >= 0 {
				n = new(big.Int).Sub(n, pow2(w))
			}
		}
		fmt.Fprintf(&body, "\t%s = %s(%s)\n", ob.GoLval, ts, n.String())
	}
	for imp := range imports {
		fmt.Fprintf(&b, "\t%q\n", imp)
	}
	b.WriteString(")\n\nvar _ = reflect.DeepEqual\nvar _ = big.NewInt\n" + replayHelpers + "\n")
	// call
	nres := fn.Signature.Results().Len()
	var resNames []string
	for i := 0; i < nres; i++ {
		resNames = append(resNames, fmt.Sprintf("r%d", i))
	}
	call := ""
	if fn.Signature.Recv() != nil {
		call = fmt.Sprintf("%s.%s(%s)", argNames[0], fn.Name(), strings.Join(argNames[1:], ", "))
	} else {
		call = fmt.Sprintf("%s(%s)", fn.Name(), strings.Join(argNames, ", "))
	}
	b.WriteString("func TestZZVerifReplay(t *testing.T) {\n")
	b.WriteString(body.String())
	{
		pvars := map[string]string{}
		poff := 0
		if fn.Signature.Recv() != nil {
			poff = 1
			if fe.ct.RecvName != "" {
				pvars[fe.ct.RecvName] = argNames[0]
			}
		}
		for i, n := range fe.ct.Params {
			pvars[n] = argNames[i+poff]
		}
		for _, r := range fe.ct.Requires {
			if ge, ok := goExprErr(r.E, pvars, fe.ct, fn.Signature.Results(), nil); ok {
				fmt.Fprintf(&b, "\tif !(%s) { fmt.Println(\"REPLAY-NOT-REPRODUCED: model does not satisfy precondition:\", %q); return }\n", ge, r.Src)
			}
		}
	}
	b.WriteString("\tpanicked := false\n\tvar pv interface{}\n")
	for i, rn := range resNames {
		collectImports(fn.Signature.Results().At(i).Type(), pkg, imports)
		fmt.Fprintf(&b, "\tvar %s %s\n", rn, types.TypeString(fn.Signature.Results().At(i).Type(), q))
	}
	b.WriteString("\tfunc() {\n\t\tdefer func() { if r := recover(); r != nil { panicked = true; pv = r } }()\n")
	if nres > 0 {
		fmt.Fprintf(&b, "\t\t%s = %s\n", strings.Join(resNames, ", "), call)
	} else {
		fmt.Fprintf(&b, "\t\t%s\n", call)
	}
	b.WriteString("\t}()\n")
	for _, rn := range resNames {
		fmt.Fprintf(&b, "\t_ = %s\n", rn)
	}
	b.WriteString("\tif panicked { fmt.Println(\"REPLAY-REPRODUCED: panic:\", pv); return }\n")
	// postconditions
	vars := map[string]string{}
	ct := fe.ct
	off := 0
	if fn.Signature.Recv() != nil {
		off = 1
		if ct.RecvName != "" {
			vars[ct.RecvName] = argNames[0]
		}
	}
	for i, n := range ct.Params {
		vars[n] = argNames[i+off]
	}
	for i, n := range ct.Results {
		rt := fn.Signature.Results().At(i).Type()
		if !types.Identical(rt, types.Universe.Lookup("error").Type()) {
			vars[n] = resNames[i]
		}
	}
	if nres == 1 {
		vars["result"] = resNames[0]
	}
	if strings.HasPrefix(o.Kind, "post") {
		for _, e := range ct.Ensures {
			if "post:"+e.Label != o.Kind+":"+strings.TrimPrefix(o.Name[strings.Index(o.Name, "#")+1:], o.Kind+":") {
				continue
			}
			ge, ok := goExprErr(e.E, vars, ct, fn.Signature.Results(), resNames)
			if !ok {
				b.WriteString("\tfmt.Println(\"REPLAY-NOT-REPRODUCED: postcondition not executable\")\n")
				continue
			}
			fmt.Fprintf(&b, "\tif !(%s) { fmt.Println(\"REPLAY-REPRODUCED: postcondition violated:\", %q", ge, e.Src)
			for _, rn := range resNames {
				fmt.Fprintf(&b, ", %s", rn)
			}
			b.WriteString("); return }\n")
		}
	}
	b.WriteString("\tfmt.Println(\"REPLAY-NOT-REPRODUCED\")\n}\n")
	// rebuild header with final imports
	src := b.String()
	var hdr strings.Builder
	fmt.Fprintf(&hdr, "package %s\n\nimport (\n\t\"fmt\"\n\t\"math/big\"\n\t\"reflect\"\n\t\"testing\"\n", pkg.Name())
	for imp := range imports {
		fmt.Fprintf(&hdr, "\t%q\n", imp)
	}
	i := strings.Index(src, ")\n\nvar _ = reflect.DeepEqual")
	src = hdr.String() + src[i:]
	return src, "", true
}

// goExprErr handles `err == nil` / `err != nil` on error-typed results.
func goExprErr(e Expr, vars map[string]string, ct *Contract, res *types.Tuple, resNames []string) (string, bool) {
	errNames := map[string]string{}
	for i, n := range ct.Results {
		if i < res.Len() && types.Identical(res.At(i).Type(), types.Universe.Lookup("error").Type()) {
			errNames[n] = resNames[i]
		}
	}
	var rewrite func(e Expr) Expr
	rewrite = func(e Expr) Expr {
		switch x := e.(type) {
		case *EBin:
			if (x.Op == "==" || x.Op == "!=") {
				if n, ok := x.L.(*EName); ok {
					if rn, isErr := errNames[n.Name]; isErr {
						if r, ok := x.R.(*EName); ok && r.Name == "nil" {
							return &EName{"@" + x.Op + rn}
						}
					}
				}
			}
			return &EBin{x.Op, rewrite(x.L), rewrite(x.R)}
		case *EUn:
			return &EUn{x.Op, rewrite(x.X)}
		}
		return e
	}
	e2 := rewrite(e)
	v2 := map[string]string{}
	for k, v := range vars {
		v2[k] = v
	}
	for _, rn := range errNames {
		v2["@=="+rn] = "(" + rn + " == nil)"
		v2["@!="+rn] = "(" + rn + " != nil)"
	}
	return goExpr(e2, v2)
}

func collectImports(t types.Type, self *types.Package, imports map[string]bool) {
	switch u := types.Unalias(t).(type) {
	case *types.Named:
		if p := u.Obj().Pkg(); p != nil && p != self {
			imports[p.Path()] = true
		}
	case *types.Pointer:
		collectImports(u.Elem(), self, imports)
	case *types.Slice:
		collectImports(u.Elem(), self, imports)
	case *types.Array:
		collectImports(u.Elem(), self, imports)
	}
}
