package main

import (
	"context"
	"encoding/json"
	"flag"
	"fmt"
	"os"
	"os/exec"
	"path/filepath"
	"regexp"
	"sort"
	"strconv"
	"strings"
	"time"
)

type Finding struct {
	Property    string `json:"property"`
	Obligation  string `json:"obligation"`
	Except      string `json:"except"`
	What        string `json:"what"`
	Status      string `json:"status"` // finding | fixed
	Commit      string `json:"commit,omitempty"`
	Witness     string `json:"witness,omitempty"`        // Go test file under /verif injected by overlay
	WitnessPkg  string `json:"witness_pkg,omitempty"`    // repository-relative package directory
	WitnessRun  string `json:"witness_run,omitempty"`    // -run pattern
	WitnessExp  string `json:"witness_expect,omitempty"` // substring printed when the defect shows on the real code
	WitnessRace bool   `json:"witness_race,omitempty"`   // run the witness under the race detector (go test -race, cgo)
	witnessOut  string
}

type KnownFindings struct {
	Findings []*Finding `json:"findings"`
	Fixed    []string   `json:"fixed"`
}

func loadFindings(path string) *KnownFindings {
	kf := &KnownFindings{}
	data, err := os.ReadFile(path)
	if err != nil {
		return kf
	}
	if err := json.Unmarshal(data, kf); err != nil {
		fmt.Fprintf(os.Stderr, "ENGINE-ERROR: cannot parse %s: %v\n", path, err)
		os.Exit(2)
	}
	return kf
}

func hasProp(props []string, p string) bool {
	for _, x := range props {
		if x == p {
			return true
		}
	}
	return false
}

func main() {
	if len(os.Args) < 2 {
		fmt.Fprintln(os.Stderr, "usage: govc check|dump ...")
		os.Exit(2)
	}
	switch os.Args[1] {
	case "check":
		os.Exit(cmdCheck(os.Args[2:]))
	case "ssa":
		cmdSSA(os.Args[2:])
	default:
		fmt.Fprintln(os.Stderr, "unknown command")
		os.Exit(2)
	}
}

func cmdSSA(args []string) {
	fs := flag.NewFlagSet("ssa", flag.ExitOnError)
	repo := fs.String("repo", "/repo", "")
	spec := fs.String("spec", "/verif/spec", "")
	fs.Parse(args)
	g, err := Load(*repo, *spec, []string{"./eth2/..."})
	if err != nil {
		fmt.Fprintln(os.Stderr, err)
		os.Exit(2)
	}
	for _, a := range fs.Args() {
		// pkgpath-suffix.Func or pkg.Type.Method
		for path, sp := range g.spkgs {
			if !strings.HasPrefix(path, modulePath) {
				continue
			}
			parts := strings.Split(a, ".")
			if !strings.HasSuffix(path, "/"+parts[0]) {
				continue
			}
			ct := &Contract{PkgPath: path, Name: parts[len(parts)-1]}
			if len(parts) == 3 {
				ct.Recv = parts[1]
			}
			if f, err := g.findFunc(ct); err == nil {
				f.WriteTo(os.Stdout)
				for _, af := range f.AnonFuncs {
					af.WriteTo(os.Stdout)
				}
			}
			_ = sp
		}
	}
}

func cmdCheck(args []string) int {
	fs := flag.NewFlagSet("check", flag.ExitOnError)
	repo := fs.String("repo", "/repo", "repository root")
	spec := fs.String("spec", "/verif/spec", "spec dir")
	prop := fs.String("prop", "", "property id")
	tier := fs.String("tier", "quick", "quick|thorough")
	evidence := fs.String("evidence", "", "evidence file to write")
	known := fs.String("known", "/verif/known_findings.json", "known findings file")
	replayDir := fs.String("replay", "/verif/replay", "replay dir")
	only := fs.String("only", "", "only functions whose name matches this regular expression")
	verbose := fs.Bool("v", false, "verbose")
	dump := fs.String("dump", "", "dump SMT of obligations whose name contains this to stdout")
	noReplay := fs.Bool("noreplay", false, "do not replay counterexamples (must-fail corpus: only the verdict matters)")
	onlyFiles := fs.String("onlyfiles", "", "comma-separated source file suffixes: only functions defined there (skips the count guard)")
	counts := fs.String("counts", "/verif/spec/expected_counts.json", "expected obligation counts")
	updateCounts := fs.Bool("update-counts", false, "rewrite expected counts for this property")
	fs.Parse(args)
	t0 := time.Now()
	if v := os.Getenv("VERIF_TIER"); v == "quick" || v == "thorough" {
		*tier = v
	}
	seed := 0
	if v := os.Getenv("VERIF_SEED"); v != "" {
		seed, _ = strconv.Atoi(v)
	}
	g, err := Load(*repo, *spec, []string{"./eth2/..."})
	if err != nil {
		// a tree that does not type-check: not a property verdict
		fmt.Printf("ENGINE-ERROR: load failed: %v\n", err)
		return 2
	}
	if errs := g.checkSortAliases(); len(errs) > 0 {
		fmt.Printf("ENGINE-ERROR: contracts are inconsistent: %s\n", strings.Join(errs, "; "))
		return 2
	}
	immErrs := g.checkImmutable()
	kf := loadFindings(*known)
	var cts []*Contract
	for _, k := range sortedKeys(g.db.Contracts) {
		ct := g.db.Contracts[k]
		// a trusted (assumed) contract may still have its body checked for the lock discipline alone
		// ("opt lockcheck=<property>"): only its lock:* obligations are generated for that property
		lockOnly := ct.Trusted && ct.Opts["lockcheck"] == *prop
		if !lockOnly && (ct.Trusted || !hasProp(ct.Props, *prop)) {
			continue
		}
		if *only != "" && !onlyMatch(*only, k) {
			continue
		}
		if *onlyFiles != "" {
			// engineering aid (must-fail corpus): only the functions defined in the named source files; functions whose
			// contract no longer binds stay in (a changed file may have lost them)
			if fn, err := g.findFunc(ct); err == nil && fn.Pos().IsValid() {
				file := g.fset.Position(fn.Pos()).Filename
				keep := false
				for _, f := range strings.Split(*onlyFiles, ",") {
					if f != "" && strings.HasSuffix(file, f) {
						keep = true
					}
				}
				if !keep {
					continue
				}
			}
		}
		cts = append(cts, ct)
	}
	var results []*FuncResult
	var obls []*Obligation
	for _, ct := range cts {
		r := g.VerifyFunction(ct)
		if ct.Trusted {
			var keep []*Obligation
			for _, o := range r.Obls {
				if strings.HasPrefix(o.Kind, "lock:") {
					o.Props = []string{*prop}
					keep = append(keep, o)
				}
			}
			r.Obls = keep
		}
		results = append(results, r)
		obls = append(obls, r.Obls...)
	}
	for _, ax := range g.db.Axioms {
		if ax.Lemma && hasProp(ax.Props, *prop) && (*only == "" || onlyMatch(*only, ax.Name)) {
			obls = append(obls, g.VerifyLemmaAll(ax)...)
		}
	}
	// restrict to obligations serving this property
	var mine []*Obligation
	for _, o := range obls {
		if hasProp(o.Props, *prop) {
			mine = append(mine, o)
		}
	}
	obls = mine
	// known findings: restrict the obligation, add a twin that re-refutes the excepted case
	var twins []*Obligation
	for _, f := range kf.Findings {
		if f.Property != *prop || f.Status != "finding" {
			continue
		}
		for _, o := range obls {
			if o.Name != f.Obligation {
				continue
			}
			ex, err := exceptTerm(g, results, o, f.Except)
			if err != nil {
				fmt.Printf("ENGINE-ERROR: known finding %s: %v\n", f.Obligation, err)
				return 2
			}
			o.Except = ex
			o.Finding = f
			tw := *o
			tw.Name = o.Name + "~finding"
			tw.Except = ""
			tw.Goal = "(=> " + ex + " " + o.Goal + ")"
			tw.Finding = f
			twins = append(twins, &tw)
		}
	}
	timeout := 30
	if *tier == "thorough" {
		timeout = 120
	}
	if *dump != "" {
		for _, o := range obls {
			if strings.Contains(o.Name, *dump) {
				fmt.Printf("; ===== %s\n%s\n", o.Name, o.Script())
			}
		}
	}
	all := append(append([]*Obligation{}, obls...), twins...)
	DischargeAll(all, timeout, 4, *tier == "thorough")

	// verdicts
	violations := 0
	discharged := 0
	bySolver := map[string]int{}
	solverTime := 0.0
	var failed []*Obligation
	total := 0
	covers := 0
	for _, o := range obls {
		if o.Cover {
			covers++
			if o.Status == "cover-vacuous" {
				failed = append(failed, o)
			}
			continue
		}
		total++
		solverTime += o.Time
		switch o.Status {
		case "discharged":
			discharged++
			bySolver[o.Solver]++
		case "engine-error":
			fmt.Printf("ENGINE-ERROR: %s: %s\n", o.Name, o.Output)
			return 2
		default:
			failed = append(failed, o)
		}
		if *verbose {
			fmt.Printf("  %-70s %-12s %-7s %.2fs\n", o.Name, o.Status, o.Solver, o.Time)
		}
	}
	var knownLines []string
	witnessCache := map[string]string{}
	for _, tw := range twins {
		st := "excepted case re-refuted by the solver on this run"
		if tw.Status == "discharged" {
			st = "excepted case now proved: the finding may be stale"
		} else if tw.Status == "undecided" {
			st = "excepted case undecided by the solver on this run"
		}
		if f := tw.Finding; f.Witness != "" {
			key := f.Witness + "|" + f.WitnessPkg + "|" + f.WitnessRun
			out, ok := witnessCache[key]
			if !ok {
				out = runWitness(*repo, f)
				witnessCache[key] = out
			}
			if strings.Contains(out, f.WitnessExp) && f.WitnessExp != "" {
				st += "; witness history replayed on the real code: still fails"
			} else {
				st += "; witness history no longer fails on the real code"
			}
		}
		knownLines = append(knownLines, fmt.Sprintf("KNOWN-FINDING: property=%s %s %s [%s]", *prop, tw.Finding.Obligation, tw.Finding.What, st))
	}
	for _, l := range knownLines {
		fmt.Println(l)
	}
	// count guard
	guardMsg := checkCounts(*counts, *prop, obls, *updateCounts, *only != "" || *onlyFiles != "")
	if guardMsg != "" {
		violations++
		path := writeReplay(*replayDir, *prop, "count-guard", map[string]interface{}{"obligation": "count-guard", "reason": guardMsg})
		fmt.Printf("VIOLATION property=%s replay=%s obligation=count-guard %s no-failing-input-found\n", *prop, path, guardMsg)
	}
	// the "immutable" declarations the memory model relies on hold for the whole repository
	if len(g.db.Immutables) > 0 {
		total++
		if len(immErrs) == 0 {
			discharged++
			bySolver["syntactic"]++
			if *verbose {
				fmt.Printf("  %-70s %-12s %-7s\n", "immutable:declared-types", "discharged", "scan")
			}
		} else {
			violations++
			path := writeReplay(*replayDir, *prop, "immutable", map[string]interface{}{"obligation": "immutable:declared-types", "reason": strings.Join(immErrs, "\n")})
			fmt.Printf("VIOLATION property=%s replay=%s obligation=immutable:declared-types %s no-failing-input-found\n", *prop, path, immErrs[0])
		}
	}
	if len(obls) == 0 && guardMsg == "" {
		fmt.Printf("ENGINE-ERROR: no obligations generated for %s\n", *prop)
		return 2
	}
	for _, o := range failed {
		violations++
		var rep ReplayResult
		if *noReplay {
			rep = ReplayResult{Path: "-"}
		} else {
			rep = Replay(g, *repo, *replayDir, *prop, o, results)
		}
		suffix := ""
		if !rep.Reproduced {
			suffix = " no-failing-input-found"
		}
		fmt.Printf("VIOLATION property=%s replay=%s obligation=%s status=%s %s%s\n", *prop, rep.Path, o.Name, o.Status, o.Pos, suffix)
		if *verbose {
			fmt.Printf("    goal: %s\n    %s\n", truncate(o.Src, 1500), strings.SplitN(o.Output, "\n", 2)[0])
			for _, pc := range o.Params {
				if v, ok := o.Model[pc.Const]; ok {
					fmt.Printf("    %s = %s\n", pc.Name, v)
				}
			}
		}
	}
	if *evidence != "" {
		writeEvidence(*evidence, *prop, *tier, seed, g, results, obls, twins, total, discharged, covers, bySolver, solverTime, violations, time.Since(t0).Seconds(), kf)
	}
	if os.Getenv("GOVC_SLOW") != "" {
		// engineering aid: obligations that took more than a quarter of the quick timeout (candidates for flakiness under load)
		for _, o := range obls {
			if o.Time > 5 {
				fmt.Printf("SLOW %s %.1fs %s\n", o.Name, o.Time, o.Solver)
			}
		}
	}
	fmt.Printf("%s %s: %d obligations, %d discharged, %d cover guards, %d violations, %.1fs\n", *prop, *tier, total, discharged, covers, violations, time.Since(t0).Seconds())
	if violations > 0 {
		return 1
	}
	return 0
}

// runWitness runs a committed witness test against the real code (go test -overlay).
func runWitness(repo string, f *Finding) string {
	tmp, _ := os.MkdirTemp("", "govc-witness")
	defer os.RemoveAll(tmp)
	pkgDir := filepath.Join(repo, f.WitnessPkg)
	src := f.Witness
	if !filepath.IsAbs(src) {
		src = filepath.Join("/verif", src)
	}
	ov := map[string]interface{}{"Replace": map[string]string{filepath.Join(pkgDir, "zz_verif_witness_test.go"): src}}
	data, _ := json.Marshal(ov)
	ovFile := filepath.Join(tmp, "ov.json")
	os.WriteFile(ovFile, data, 0o644)
	ctx, cancel := context.WithTimeout(context.Background(), 120*time.Second)
	defer cancel()
	args := []string{"test", "-overlay", ovFile, "-vet=off", "-tags", "verif", "-count=1", "-v", "-timeout", "60s", "-run", f.WitnessRun}
	if f.WitnessRace {
		args = append(args, "-race")
	}
	cmd := exec.CommandContext(ctx, "go", append(args, ".")...)
	cmd.Dir = pkgDir
	cmd.Env = append(os.Environ(), "GOFLAGS=-mod=mod", "GOPROXY=off", "GOSUMDB=off", "GOTOOLCHAIN=local")
	if f.WitnessRace {
		cmd.Env = append(cmd.Env, "CGO_ENABLED=1")
	}
	out, _ := cmd.CombinedOutput()
	return string(out)
}

// exceptTerm evaluates a known-finding exception predicate in the entry state of the obligation's function.
func exceptTerm(g *Gen, results []*FuncResult, o *Obligation, except string) (string, error) {
	e, err := ParseExpr(except)
	if err != nil {
		return "", err
	}
	for _, r := range results {
		if r.Func == o.Func && r.fe != nil {
			nl := len(r.fe.s.lines)
			ev := r.fe.newEval(r.fe.entryMem, r.fe.entryMem, r.fe.paramVals)
			nerr := len(r.fe.bindErrs)
			t := ev.evalBool(e)
			if len(r.fe.bindErrs) > nerr {
				return "", fmt.Errorf("%s", r.fe.bindErrs[len(r.fe.bindErrs)-1])
			}
			// well-typedness facts emitted while evaluating are dropped (they follow every obligation's prefix)
			r.fe.s.lines = r.fe.s.lines[:nl]
			return t, nil
		}
	}
	return "", fmt.Errorf("function %s not under contract", o.Func)
}

func checkCounts(path, prop string, obls []*Obligation, update bool, partial bool) string {
	if partial {
		return ""
	}
	cur := map[string]int{}
	for _, o := range obls {
		switch {
		case o.Kind == "bind", strings.HasPrefix(o.Kind, "loop"), o.Kind == "post", o.Kind == "frame", o.Kind == "lemma", o.Kind == "cover":
			cur[o.Kind]++
		}
	}
	all := map[string]map[string]int{}
	if data, err := os.ReadFile(path); err == nil {
		json.Unmarshal(data, &all)
	}
	if update {
		all[prop] = cur
		data, _ := json.MarshalIndent(all, "", " ")
		os.WriteFile(path, append(data, '\n'), 0o644)
		return ""
	}
	exp, ok := all[prop]
	if !ok {
		return ""
	}
	var msgs []string
	for _, k := range sortedKeys(exp) {
		if cur[k] < exp[k] {
			msgs = append(msgs, fmt.Sprintf("%s: %d < expected %d", k, cur[k], exp[k]))
		}
	}
	if len(msgs) > 0 {
		return "contract-determined obligations disappeared (" + strings.Join(msgs, "; ") + ")"
	}
	return ""
}

func writeReplay(dir, prop, name string, content map[string]interface{}) string {
	d := filepath.Join(dir, prop)
	os.MkdirAll(d, 0o755)
	p := filepath.Join(d, mangle(name)+".json")
	data, _ := json.MarshalIndent(content, "", " ")
	os.WriteFile(p, append(data, '\n'), 0o644)
	return p
}

func writeEvidence(path, prop, tier string, seed int, g *Gen, results []*FuncResult, obls, twins []*Obligation, total, discharged, covers int,
	bySolver map[string]int, solverTime float64, violations int, wall float64, kf *KnownFindings) {
	var funcs []map[string]interface{}
	inl := map[string]bool{}
	hav := map[string]bool{}
	notes := map[string]bool{}
	for _, r := range results {
		funcs = append(funcs, map[string]interface{}{"func": r.Func, "mode": r.Contract.Mode, "contract": strings.TrimPrefix(r.Contract.File, g.repo+"/") + ":" + strconv.Itoa(r.Contract.Line), "vc_iterations": r.Iter})
		for _, x := range r.Inlined {
			inl[x] = true
		}
		for _, x := range r.Havocked {
			hav[x] = true
		}
		for _, x := range r.Notes {
			notes[x] = true
		}
	}
	var samples []map[string]interface{}
	kinds := map[string]int{}
	var bounded []string
	for _, o := range obls {
		kinds[o.Kind]++
		if o.Bounded > 0 {
			bounded = append(bounded, o.Name)
		}
	}
	step := len(obls)/8 + 1
	for i := 0; i < len(obls); i += step {
		o := obls[i]
		samples = append(samples, map[string]interface{}{"obligation": o.Name, "goal": o.Src, "at": o.Pos, "status": o.Status, "solver": o.Solver, "time_s": o.Time})
	}
	var kfs []map[string]interface{}
	for _, tw := range twins {
		kfs = append(kfs, map[string]interface{}{"obligation": tw.Finding.Obligation, "except": tw.Finding.Except, "what": tw.Finding.What,
			"excepted_case_this_run": tw.Status})
	}
	var usedAx []string
	axSeen := map[string]bool{}
	for _, o := range obls {
		for _, a := range o.Sess.usedAxioms {
			if !axSeen[a] {
				axSeen[a] = true
				usedAx = append(usedAx, a)
			}
		}
	}
	sort.Strings(usedAx)
	var trustedContracts []string
	for _, k := range sortedKeys(g.db.Contracts) {
		if g.db.Contracts[k].Trusted {
			trustedContracts = append(trustedContracts, k)
		}
	}
	assumptions := []string{
		"govc (this VC generator), go/ssa's translation of Go to SSA, and the SMT solvers z3 4.8.12 / z3 5.1.0 / cvc5 1.0 are trusted",
		"machine integers are modelled exactly (int mode: mathematical integers with explicit mod 2^w after + - *; bv mode: bit-vectors); no arithmetic is treated as mathematical",
		"slices and maps stored in structs are owned values: aliasing between distinct slice/map values that share a backing store is not modelled (writes through a slice view reach the location it was loaded from)",
		"sub-slicing is checked against len, not cap",
		"distinct pointer parameters of the same type may alias unless the contract says otherwise; objects of different struct types never alias (Go type safety)",
		"termination is proved only where a decreases clause is given",
	}
	for _, n := range sortedKeys(notes) {
		assumptions = append(assumptions, "note: "+n)
	}
	for _, h := range sortedKeys(hav) {
		assumptions = append(assumptions, "unchecked: "+h)
	}
	ev := map[string]interface{}{
		"property_id": prop,
		"tier":        tier,
		"seed":        seed,
		"level":       "proof",
		"coverage": map[string]interface{}{
			"obligations":    total,
			"discharged":     discharged,
			"checker_cmd":    "govc check -prop " + prop + " -tier " + tier + " (go/ssa weakest-precondition VCs from /repo's working tree, discharged by z3 4.8.12 | z3 5.1.0 | cvc5 1.0 raced)",
			"trusted_base":   []string{"govc VC generator", "go/ssa (x/tools v0.29.0)", "z3 4.8.12", "z3 5.1.0 (z3-new)", "cvc5 1.0", "axioms in /verif/spec/*.gvc: " + strings.Join(usedAx, ", "), "trusted (assumed) contracts: " + strings.Join(trustedContracts, ", ")},
			"functions":      funcs,
			"by_solver":      bySolver,
			"solver_time_s":  solverTime,
			"by_kind":        kinds,
			"cover_guards":   covers,
			"inlined":        sortedKeys(inl),
			"bounded":        bounded,
			"known_findings": kfs,
			"samples":        samples,
			"axioms_assumed": usedAx,
			"contract_files": g.db.Files,
		},
		"assumptions": assumptions,
		"wall_s":      wall,
		"violations":  violations,
	}
	data, _ := json.MarshalIndent(ev, "", " ")
	os.MkdirAll(filepath.Dir(path), 0o755)
	os.WriteFile(path, append(data, '\n'), 0o644)
}

func onlyMatch(pat, name string) bool {
	re, err := regexp.Compile(pat)
	if err != nil {
		return strings.Contains(name, pat)
	}
	return re.MatchString(name)
}
