package main

// VC generation over go/ssa: passive block-guard encoding, loops cut at
// headers by invariants, calls replaced by contracts (or inlined).

import (
	"fmt"
	"go/token"
	"go/types"
	"sort"
	"strings"

	"golang.org/x/tools/go/ssa"
)

type Obligation struct {
	Name    string
	Func    string // function under contract
	Kind    string
	Props   []string
	Goal    string
	Prefix  int
	Sess    *Sess
	Cover   bool // goal must be satisfiable (vacuity guard)
	Bounded int
	Src     string
	Pos     string
	Params  []ParamConst
	// results (filled by solver)
	Status  string // discharged | refuted | undecided | cover-ok | cover-vacuous
	Solver  string
	Time    float64
	Model   map[string]string
	Output  string
	Except  string // known-finding exception applied
	Finding *Finding
}

type ParamConst struct {
	Name  string // contract/param name
	Const string // SMT constant
	Type  string // Go type string
}

type retInfo struct {
	guard string
	vals  []Val
	mem   *Mem
}

type edge struct {
	from *ssa.BasicBlock
	idx  int // successor index in from
}

type loopInfo struct {
	preHeap   map[string]string   // heap key -> term before the loop (for the automatic loop frame)
	frameRefs map[string][]string // heap key -> the only refs the loop writes
	headMem   *Mem                // memory at the loop head (after havoc), for decreases
	header    *ssa.BasicBlock
	blocks    map[*ssa.BasicBlock]bool
	ordinal   int
	minIdx    int
	modset    map[string]bool
}

type FnEnc struct {
	g                   *Gen
	s                   *Sess
	top                 *FnEnc
	parent              *FnEnc
	fn                  *ssa.Function
	ct                  *Contract
	vals                map[ssa.Value]Val
	depth               int
	obls                []*Obligation // only on top
	sites               map[string]int
	guard               string
	mem                 *Mem
	entryMem            *Mem
	paramVals           map[string]Val
	paramConsts         []ParamConst
	rets                []retInfo
	loops               map[*ssa.BasicBlock]*loopInfo
	modsets             map[string]map[string]bool            // loop key (fn name + ordinal) -> modified keys; on top
	modrefs             map[string]map[string]map[string]bool // loop key -> heap key -> refs written ("*" = unknown)
	modGrew             bool
	curLoops            []*loopInfo // loops containing the current block (this function) + parent's
	sitePrefix          string
	curArgs             []Val // arguments of the contract call being applied (assigns anything)
	curBlock            *ssa.BasicBlock
	freshObjs           []freshObj
	checkOnly           bool // check obligations without assuming them afterwards (hints about a value that is then forgotten)
	curIdx              int
	callCount           map[string]int
	freeVars            []Val
	defers              []*ssa.Defer
	blockOf             *ssa.BasicBlock
	inlined             map[string]bool
	havocked            map[string]bool
	stack               []*ssa.Function
	props               []string
	bounded             int
	ghostLocks          map[string]bool
	bindErrs            []string
	ctNoPanic           int
	dbg                 map[string][]*ssa.DebugRef
	ifaceCalls          []IfaceCall
	cellInit0           map[string]string
	staticContractCalls int
	oblNames            map[string]int
}

func (fe *FnEnc) fnName() string { return shortFn(fe.fn) }

func shortFn(fn *ssa.Function) string {
	n := fn.Name()
	if fn.Signature.Recv() != nil {
		rt := fn.Signature.Recv().Type()
		if p, ok := rt.(*types.Pointer); ok {
			rt = p.Elem()
		}
		if nt, ok := types.Unalias(rt).(*types.Named); ok {
			n = nt.Obj().Name() + "." + n
		}
	}
	if fn.Pkg != nil {
		return fn.Pkg.Pkg.Name() + "." + n
	}
	if fn.Parent() != nil {
		return shortFn(fn.Parent()) + "$" + n
	}
	return n
}

// oblig records a proof obligation: under the current script prefix, goal holds.
func (fe *FnEnc) oblig(kind, label, goal, src string, pos token.Pos) *Obligation {
	top := fe.top
	if goal == "true" {
		// trivially true goals are still counted (cheap)
	}
	name := top.fnName() + "#" + kind
	if label != "" {
		name += ":" + label
	}
	if top.oblNames == nil {
		top.oblNames = map[string]int{}
	}
	top.oblNames[name]++
	if n := top.oblNames[name]; n > 1 {
		// e.g. one loop.preserve obligation per back edge
		name = fmt.Sprintf("%s~%d", name, n)
	}
	o := &Obligation{Name: name, Func: top.fnName(), Kind: kind, Goal: goal, Prefix: len(fe.s.lines), Sess: fe.s, Src: src,
		Props: top.props, Params: top.paramConsts, Bounded: top.bounded}
	if pos.IsValid() {
		p := fe.g.fset.Position(pos)
		o.Pos = fmt.Sprintf("%s:%d", strings.TrimPrefix(p.Filename, fe.g.repo+"/"), p.Line)
	}
	top.obls = append(top.obls, o)
	return o
}

// check = obligation + assume afterwards.
func (fe *FnEnc) check(kind, label, cond, src string, pos token.Pos) {
	goal := implies(fe.guard, cond)
	fe.oblig(kind, label, goal, src, pos)
	if goal != "true" && !fe.checkOnly {
		fe.s.assert(goal)
	}
}

// panicSite numbers panic-class obligations per function and kind in encounter order.
func (fe *FnEnc) panicCheck(kind string, cond string, pos token.Pos) {
	top := fe.top
	if (top.ct != nil && top.ct.Panics == "off") || top.ctNoPanic > 0 {
		return
	}
	if cond == "true" {
		return
	}
	key := kind
	if fe.sitePrefix != "" {
		key = kind + "@" + fe.sitePrefix
	}
	top.sites[key]++
	label := fmt.Sprintf("%d", top.sites[key])
	if fe.sitePrefix != "" {
		label = fe.sitePrefix + "." + label
	}
	fe.check("panic:"+kind, "@"+label, cond, kind, pos)
}

func (fe *FnEnc) unsupported(f string, a ...interface{}) {
	msg := fmt.Sprintf(f, a...)
	fe.s.note("unsupported in %s: %s", fe.fnName(), msg)
	fe.top.havocked["unsupported: "+msg] = true
}

// ---------------------------------------------------------------- CFG

func (fe *FnEnc) analyzeLoops() (order []*ssa.BasicBlock, back map[edge]bool) {
	fn := fe.fn
	back = map[edge]bool{}
	for _, b := range fn.Blocks {
		for i, sc := range b.Succs {
			if sc.Dominates(b) {
				back[edge{b, i}] = true
			}
		}
	}
	// RPO of the cut graph
	seen := map[*ssa.BasicBlock]bool{}
	var post []*ssa.BasicBlock
	var dfs func(b *ssa.BasicBlock)
	dfs = func(b *ssa.BasicBlock) {
		seen[b] = true
		for i, sc := range b.Succs {
			if back[edge{b, i}] || seen[sc] {
				continue
			}
			dfs(sc)
		}
		post = append(post, b)
	}
	if len(fn.Blocks) > 0 {
		dfs(fn.Blocks[0])
	}
	for i := len(post) - 1; i >= 0; i-- {
		order = append(order, post[i])
	}
	// natural loops
	fe.loops = map[*ssa.BasicBlock]*loopInfo{}
	for e := range back {
		h := e.from.Succs[e.idx]
		li := fe.loops[h]
		if li == nil {
			li = &loopInfo{header: h, blocks: map[*ssa.BasicBlock]bool{h: true}, minIdx: h.Index}
			fe.loops[h] = li
		}
		var stack []*ssa.BasicBlock
		if !li.blocks[e.from] {
			li.blocks[e.from] = true
			stack = append(stack, e.from)
		}
		for len(stack) > 0 {
			b := stack[len(stack)-1]
			stack = stack[:len(stack)-1]
			for _, p := range b.Preds {
				if !li.blocks[p] && seen[p] {
					li.blocks[p] = true
					stack = append(stack, p)
				}
			}
		}
	}
	var ls []*loopInfo
	for _, li := range fe.loops {
		for b := range li.blocks {
			if b.Index < li.minIdx {
				li.minIdx = b.Index
			}
		}
		ls = append(ls, li)
	}
	sort.Slice(ls, func(i, j int) bool {
		if ls[i].minIdx != ls[j].minIdx {
			return ls[i].minIdx < ls[j].minIdx
		}
		return len(ls[i].blocks) > len(ls[j].blocks)
	})
	for i, li := range ls {
		li.ordinal = i + 1
	}
	return order, back
}

func (fe *FnEnc) loopKey(li *loopInfo) string {
	return fmt.Sprintf("%s/%s#%d", fe.sitePrefix, fe.fn.String(), li.ordinal)
}

// recordMod notes that memory key k is written (for loop havoc sets).
func (fe *FnEnc) recordMod(keys []string) {
	for f := fe; f != nil; f = f.parent {
		for _, li := range f.curLoops {
			lk := f.loopKey(li)
			ms := fe.top.modsets[lk]
			if ms == nil {
				ms = map[string]bool{}
				fe.top.modsets[lk] = ms
			}
			for _, kr := range keys {
				k, ref := kr, "*"
				if i := strings.Index(kr, "@"); i >= 0 {
					k, ref = kr[:i], kr[i+1:]
				}
				if !ms[k] {
					ms[k] = true
					fe.top.modGrew = true
				}
				if strings.HasPrefix(k, "H_") {
					if fe.top.modrefs[lk] == nil {
						fe.top.modrefs[lk] = map[string]map[string]bool{}
					}
					if fe.top.modrefs[lk][k] == nil {
						fe.top.modrefs[lk][k] = map[string]bool{}
					}
					if !fe.top.modrefs[lk][k][ref] {
						fe.top.modrefs[lk][k][ref] = true
						fe.top.modGrew = true
					}
				}
			}
		}
	}
}

// ---------------------------------------------------------------- run

// run encodes the body of fe.fn with the given arguments.
func (fe *FnEnc) run(args []Val) {
	fn := fe.fn
	for i, p := range fn.Params {
		if i < len(args) {
			fe.vals[p] = args[i]
		}
	}
	order, back := fe.analyzeLoops()
	guardOut := map[*ssa.BasicBlock]string{}
	memOut := map[*ssa.BasicBlock]*Mem{}
	edgeCond := map[edge]string{}
	entryGuard := fe.guard
	entryMem := fe.mem

	for _, b := range order {
		fe.blockOf = b
		// loops containing b
		fe.curLoops = nil
		for _, li := range fe.loops {
			if li.blocks[b] {
				fe.curLoops = append(fe.curLoops, li)
			}
		}
		sort.Slice(fe.curLoops, func(i, j int) bool { return fe.curLoops[i].ordinal < fe.curLoops[j].ordinal })
		type inEdge struct {
			predIdx int
			pred    *ssa.BasicBlock
			guard   string
			isBack  bool
		}
		var ins []inEdge
		occ := map[*ssa.BasicBlock]int{}
		for pi, p := range b.Preds {
			// which successor slot of p is this edge
			n := occ[p]
			occ[p]++
			si := -1
			cnt := 0
			for j, sc := range p.Succs {
				if sc == b {
					if cnt == n {
						si = j
						break
					}
					cnt++
				}
			}
			e := edge{p, si}
			if back[e] {
				ins = append(ins, inEdge{pi, p, "", true})
				continue
			}
			g, ok := guardOut[p]
			if !ok {
				continue // unreachable pred
			}
			ins = append(ins, inEdge{pi, p, and(g, edgeCond[e]), false})
		}
		li := fe.loops[b]
		if b == fn.Blocks[0] {
			fe.guard = entryGuard
			fe.mem = entryMem.clone()
		} else {
			var gs []string
			var ms []*Mem
			for _, in := range ins {
				if in.isBack {
					continue
				}
				gs = append(gs, in.guard)
				ms = append(ms, memOut[in.pred])
			}
			if len(gs) == 0 {
				continue // unreachable
			}
			fe.guard = fe.s.name("g", "Bool", or(gs...))
			fe.mem = fe.mergeMems(gs, ms)
		}
		// phis
		var phis []*ssa.Phi
		for _, ins := range b.Instrs {
			if p, ok := ins.(*ssa.Phi); ok {
				phis = append(phis, p)
			} else {
				break
			}
		}
		if li != nil {
			spec := fe.loopSpec(li)
			// implicit invariant of range-over-slice loops: -1 <= rangeindex < len
			for _, in := range ins {
				if in.isBack {
					continue
				}
				over := map[*ssa.Phi]Val{}
				for _, p := range phis {
					over[p] = fe.val(p.Edges[in.predIdx])
				}
				if ri := fe.rangeIndexInv(b, over); ri != "" {
					saveG := fe.guard
					fe.guard = in.guard
					fe.check(fmt.Sprintf("loop%d.init", li.ordinal), fe.siteLabel("rangeindex"), ri, "-1 <= rangeindex < len (implicit)", b.Instrs[0].Pos())
					fe.guard = saveG
				}
			}
			// loop.init on each entry edge
			if spec != nil {
				for _, in := range ins {
					if in.isBack {
						continue
					}
					over := map[*ssa.Phi]Val{}
					for _, p := range phis {
						over[p] = fe.val(p.Edges[in.predIdx])
					}
					saveG, saveM := fe.guard, fe.mem
					fe.guard, fe.mem = in.guard, memOut[in.pred]
					for _, inv := range spec.Invariants {
						t := fe.evalAtLoop(b, inv, over)
						fe.check(fmt.Sprintf("loop%d.init", li.ordinal), fe.siteLabel(inv.Label), t, inv.Src, b.Instrs[0].Pos())
					}
					fe.guard, fe.mem = saveG, saveM
				}
			}
			// havoc
			lk := fe.loopKey(li)
			fe.havocLoop(li, lk)
			for _, p := range phis {
				fe.vals[p] = fe.freshVal("lp_"+mangle(p.Comment), p.Type())
			}
			if ri := fe.rangeIndexInv(b, nil); ri != "" {
				fe.s.assert(implies(fe.guard, ri))
			}
			if spec != nil {
				for _, inv := range spec.Invariants {
					t := fe.evalAtLoopAssume(b, inv)
					fe.s.assert(implies(fe.guard, t))
				}
				li.headMem = fe.mem.clone()
				for _, h := range spec.Hints {
					t := fe.evalAtLoop(b, h, nil)
					// hints are proved first (as a lemma instance), then assumed
					fe.check(fmt.Sprintf("loop%d.hint", li.ordinal), fe.siteLabel(h.Label), t, h.Src, b.Instrs[0].Pos())
				}
			}
		} else {
			for _, p := range phis {
				var gs []string
				var vs []Val
				for _, in := range ins {
					gs = append(gs, in.guard)
					vs = append(vs, fe.val(p.Edges[in.predIdx]))
				}
				fe.vals[p] = fe.mergeVals(gs, vs, p.Type())
			}
		}
		// instructions
		for ii, ins := range b.Instrs[len(phis):] {
			fe.curBlock, fe.curIdx = b, len(phis)+ii
			fe.instr(ins)
		}
		// terminator
		last := b.Instrs[len(b.Instrs)-1]
		switch t := last.(type) {
		case *ssa.If:
			c := fe.val(t.Cond).Term
			c = fe.s.name("c", "Bool", c)
			edgeCond[edge{b, 0}] = c
			edgeCond[edge{b, 1}] = not(c)
		case *ssa.Jump:
			edgeCond[edge{b, 0}] = "true"
		}
		guardOut[b] = fe.guard
		memOut[b] = fe.mem
		// back edges: loop.preserve
		for si, sc := range b.Succs {
			e := edge{b, si}
			if !back[e] {
				continue
			}
			hli := fe.loops[sc]
			spec := fe.loopSpec(hli)
			{
				pi0 := -1
				cnt0, want0 := 0, 0
				for j := 0; j < si; j++ {
					if b.Succs[j] == sc {
						want0++
					}
				}
				for j, p := range sc.Preds {
					if p == b {
						if cnt0 == want0 {
							pi0 = j
							break
						}
						cnt0++
					}
				}
				over0 := map[*ssa.Phi]Val{}
				for _, ins := range sc.Instrs {
					if p, ok := ins.(*ssa.Phi); ok && pi0 >= 0 {
						over0[p] = fe.val(p.Edges[pi0])
					}
				}
				if ri := fe.rangeIndexInv(sc, over0); ri != "" {
					saveG := fe.guard
					fe.guard = and(fe.guard, edgeCond[e])
					fe.check(fmt.Sprintf("loop%d.preserve", hli.ordinal), fe.siteLabel("rangeindex"), ri, "-1 <= rangeindex < len (implicit)", sc.Instrs[0].Pos())
					fe.guard = saveG
				}
				if spec == nil {
					if fr := fe.loopFrameGoal(hli); fr != "" {
						saveG := fe.guard
						fe.guard = and(fe.guard, edgeCond[e])
						fe.check(fmt.Sprintf("loop%d.frame", hli.ordinal), fe.siteLabel(""), fr, "objects the loop does not write are unchanged", sc.Instrs[0].Pos())
						fe.guard = saveG
					}
				}
			}
			if spec == nil {
				continue
			}
			// pred index of this edge in sc.Preds
			pi := -1
			cnt, want := 0, 0
			for j := 0; j < si; j++ {
				if b.Succs[j] == sc {
					want++
				}
			}
			for j, p := range sc.Preds {
				if p == b {
					if cnt == want {
						pi = j
						break
					}
					cnt++
				}
			}
			over := map[*ssa.Phi]Val{}
			var hphis []*ssa.Phi
			for _, ins := range sc.Instrs {
				if p, ok := ins.(*ssa.Phi); ok {
					hphis = append(hphis, p)
					over[p] = fe.val(p.Edges[pi])
				} else {
					break
				}
			}
			saveG := fe.guard
			fe.guard = and(fe.guard, edgeCond[e])
			for _, inv := range spec.Invariants {
				t := fe.evalAtLoop(sc, inv, over)
				fe.check(fmt.Sprintf("loop%d.preserve", hli.ordinal), fe.siteLabel(inv.Label), t, inv.Src, sc.Instrs[0].Pos())
			}
			if spec.Decreases != nil {
				newV := fe.evalAtLoopTerm(sc, *spec.Decreases, over)
				saveM := fe.mem
				if hli.headMem != nil {
					fe.mem = hli.headMem
				}
				oldV := fe.evalAtLoopTerm(sc, *spec.Decreases, nil)
				fe.mem = saveM
				fe.check(fmt.Sprintf("loop%d.decreases", hli.ordinal), fe.siteLabel(""), "(and (<= 0 "+oldV+") (< "+newV+" "+oldV+"))", "decreases "+spec.Decreases.Src, sc.Instrs[0].Pos())
			}
			if fr := fe.loopFrameGoal(hli); fr != "" {
				fe.check(fmt.Sprintf("loop%d.frame", hli.ordinal), fe.siteLabel(""), fr, "objects the loop does not write are unchanged", sc.Instrs[0].Pos())
			}
			fe.guard = saveG
		}
	}
}

// havocLoop havocs what the loop writes.  For heap fields written only through
// stable references (parameters), the other objects are known to be untouched:
// that automatic frame is assumed at the head and proved on every back edge.
func (fe *FnEnc) havocLoop(li *loopInfo, lk string) {
	keys := fe.top.modsets[lk]
	li.preHeap = map[string]string{}
	li.frameRefs = map[string][]string{}
	for _, k := range sortedKeys(keys) {
		if !strings.HasPrefix(k, "H_") {
			continue
		}
		refs := fe.top.modrefs[lk][k]
		if len(refs) == 0 || refs["*"] {
			continue
		}
		stable := true
		for r := range refs {
			if !(strings.HasPrefix(r, "p_") || strings.HasPrefix(r, "new_")) || !isAtom(r) {
				stable = false
			}
		}
		if !stable {
			continue
		}
		if _, ok := fe.s.heapSort[k]; !ok {
			if reg := fe.g.heapReg[k]; reg != nil {
				reg(fe.s)
			}
		}
		li.preHeap[k] = fe.s.heapGet(fe.mem, k)
		var rs []string
		fresh := false
		for _, r := range sortedKeys(refs) {
			if strings.HasPrefix(r, "new_") {
				fresh = true
			} else {
				rs = append(rs, r)
			}
		}
		if fresh {
			// objects allocated during this call: everything at or above the entry watermark
			nk := fe.s.heapOwner[k]
			rs = append(rs, "@fresh:"+fe.s.ghostGet(fe.top.entryMem, nk, "Int"))
		}
		li.frameRefs[k] = rs
	}
	fe.havocKeys(keys)
	for _, k := range sortedKeys(li.preHeap) {
		fe.s.assert(implies(fe.guard, frameFormula(fe.mem.heaps[k], li.preHeap[k], li.frameRefs[k])))
	}
}

func frameFormula(cur, pre string, refs []string) string {
	var conds []string
	for _, r := range refs {
		if strings.HasPrefix(r, "@fresh:") {
			conds = append(conds, "(< fr "+strings.TrimPrefix(r, "@fresh:")+")")
			continue
		}
		conds = append(conds, "(not (= fr "+r+"))")
	}
	return "(forall ((fr Int)) (! (=> " + and(conds...) + " (= (select " + cur + " fr) (select " + pre + " fr))) :pattern ((select " + cur + " fr))))"
}

func (fe *FnEnc) loopFrameGoal(li *loopInfo) string {
	var gs []string
	for _, k := range sortedKeys(li.preHeap) {
		gs = append(gs, frameFormula(fe.s.heapGet(fe.mem, k), li.preHeap[k], li.frameRefs[k]))
	}
	if len(gs) == 0 {
		return ""
	}
	return and(gs...)
}

func (fe *FnEnc) siteLabel(l string) string {
	if fe.sitePrefix != "" {
		if l == "" {
			return fe.sitePrefix
		}
		return fe.sitePrefix + "." + l
	}
	return l
}

func (fe *FnEnc) loopSpec(li *loopInfo) *LoopSpec {
	ct := fe.ct
	if ct == nil {
		ct = fe.g.contractFor(fe.fn)
	}
	if ct == nil {
		// an inlined helper / closure without contract: the enclosing contract's "loop *" clauses apply
		if fe.top != fe && fe.top.ct != nil && fe.top.ct.Loops[0] != nil {
			ct = &Contract{Loops: map[int]*LoopSpec{0: fe.top.ct.Loops[0]}}
		} else {
			return nil
		}
	}
	sp, all := ct.Loops[li.ordinal], ct.Loops[0]
	if all == nil {
		return sp
	}
	// "loop *" clauses apply to every loop, in front of the loop's own
	m := &LoopSpec{K: li.ordinal}
	for _, c := range all.Invariants {
		c2 := c
		c2.Label = "all_" + c.Label
		m.Invariants = append(m.Invariants, c2)
	}
	m.Hints = append(m.Hints, all.Hints...)
	if sp != nil {
		m.Invariants = append(m.Invariants, sp.Invariants...)
		m.Hints = append(m.Hints, sp.Hints...)
		m.Decreases = sp.Decreases
	}
	return m
}

// havocKeys replaces the given memory keys with fresh values.
func (fe *FnEnc) havocKeys(keys map[string]bool) {
	for _, k := range sortedKeys(keys) {
		if strings.HasPrefix(k, "cell:") {
			ck := strings.TrimPrefix(k, "cell:")
			t := fe.mem.cellT[ck]
			if t == nil {
				continue
			}
			n := fe.s.fresh("hc", fe.s.sortOf(t))
			fe.s.assumeRange(t, n)
			// slices keep their length across havoc only if invariant says so
			fe.mem.cells[ck] = n
		} else if strings.HasPrefix(k, "ghost:") {
			gk := strings.TrimPrefix(k, "ghost:")
			fe.mem.ghost[gk] = fe.s.fresh("hg", fe.s.ghostSortOf(gk))
		} else {
			if fe.s.immutableKey(k) {
				continue // objects of a type declared immutable (and checked to be so) keep their fields
			}
			if _, ok := fe.s.heapSort[k]; !ok {
				if reg := fe.g.heapReg[k]; reg != nil {
					reg(fe.s)
				}
			}
			h := fe.s.fresh("hh", fe.s.heapSort[k])
			fe.mem.heaps[k] = h
			for pk := range fe.mem.ptrs {
				if strings.HasPrefix(pk, "heap:"+k+"@") {
					delete(fe.mem.ptrs, pk)
				}
			}

		}
	}
}

// freshObj: a struct object allocated by the function under analysis (an address-taken local or a composite literal).
type freshObj struct {
	x   *ssa.Alloc
	ref string
	et  types.Type
}

// notYetEscaped: no use through which the object's address could leave the function (argument of a call, stored
// pointer, interface conversion, return, phi, closure capture) can have executed before the current instruction:
// every such use is later in the current block or in a block the current block strictly dominates, and the current
// block is not on a cycle.
func (fe *FnEnc) notYetEscaped(x *ssa.Alloc) bool {
	if fe.top != fe || fe.curBlock == nil || x.Referrers() == nil {
		return false
	}
	cur := fe.curBlock
	// the current block must not be reachable from itself
	seen := map[*ssa.BasicBlock]bool{}
	stack := append([]*ssa.BasicBlock{}, cur.Succs...)
	for len(stack) > 0 {
		b := stack[len(stack)-1]
		stack = stack[:len(stack)-1]
		if b == cur {
			return false
		}
		if seen[b] {
			continue
		}
		seen[b] = true
		stack = append(stack, b.Succs...)
	}
	later := func(u ssa.Instruction) bool {
		b := u.Block()
		if b == cur {
			for i, ins := range b.Instrs {
				if ins == u {
					return i > fe.curIdx
				}
			}
			return false
		}
		return cur.Dominates(b)
	}
	var escapes func(v ssa.Value, depth int) bool
	escapes = func(v ssa.Value, depth int) bool {
		if depth > 3 || v.Referrers() == nil {
			return true
		}
		for _, u := range *v.Referrers() {
			switch t := u.(type) {
			case *ssa.FieldAddr:
				// the address of a field: only loads and stores through it are harmless
				if t.X != v {
					return true
				}
				for _, u2 := range *t.Referrers() {
					switch t2 := u2.(type) {
					case *ssa.UnOp:
					case *ssa.Store:
						if t2.Addr != t {
							if !later(u2) {
								return true
							}
						}
					case *ssa.DebugRef:
					default:
						if !later(u2) {
							return true
						}
					}
				}
			case *ssa.UnOp, *ssa.DebugRef:
			case *ssa.Store:
				if t.Addr != v && !later(u) {
					return true
				}
			default:
				if !later(u) {
					return true
				}
			}
		}
		return false
	}
	return !escapes(x, 0)
}

func (fe *FnEnc) havocAll(why string) {
	fe.top.havocked[why] = true
	keys := map[string]bool{}
	for k := range fe.s.heapSort {
		keys[k] = true
	}
	// objects this function allocated and has not yet let out of its hands keep their contents
	type keep struct{ k, ref, old string }
	var keeps []keep
	if fe.top == fe {
		for _, fo := range fe.top.freshObjs {
			if st, ok := structOf(fo.et); ok && fe.notYetEscaped(fo.x) {
				sn := fe.s.sortOf(fo.et)
				for i := 0; i < st.NumFields(); i++ {
					k := fe.s.heapKeyField(sn, st, i)
					keeps = append(keeps, keep{k, fo.ref, fe.s.heapGet(fe.mem, k)})
				}
			}
		}
	}
	fe.havocKeys(keys)
	for _, kp := range keeps {
		fe.s.assert("(= (select " + fe.s.heapGet(fe.mem, kp.k) + " " + kp.ref + ") (select " + kp.old + " " + kp.ref + "))")
	}
	var ks []string
	for k := range keys {
		ks = append(ks, k)
	}
	fe.recordMod(ks)
}

// freshVal creates an unconstrained (well-typed) value of Go type t.
func (fe *FnEnc) freshVal(prefix string, t types.Type) Val {
	if tup, ok := t.(*types.Tuple); ok {
		var vs []Val
		for i := 0; i < tup.Len(); i++ {
			vs = append(vs, fe.freshVal(prefix, tup.At(i).Type()))
		}
		return Val{T: t, Tup: vs}
	}
	n := fe.s.fresh(prefix, fe.s.sortOf(t))
	fe.s.assumeRange(t, n)
	return fe.wrapTerm(n, t)
}

// wrapTerm turns an SMT term of Go type t into a Val (slices/maps get a fresh cell).
func (fe *FnEnc) wrapTerm(term string, t types.Type) Val {
	switch u := types.Unalias(t).Underlying().(type) {
	case *types.Slice:
		ck := fe.newCell("sl", t, term)
		es := fe.s.sortOf(u.Elem())
		return Val{T: t, View: &View{Origin: &Addr{Root: rootCell, Cell: ck, RootT: t, Nil: "false"}, Off: "0", Len: fe.s.name("ln", "Int", fe.s.seqLen(es, term)), Elem: u.Elem()}}
	case *types.Map:
		ck := fe.newCell("mp", t, term)
		return Val{T: t, Map: &MapV{Origin: &Addr{Root: rootCell, Cell: ck, RootT: t, Nil: "false"}, T: u}}
	case *types.Pointer:
		fe.assumePtr(u, term)
	}
	return Val{T: t, Term: term}
}

func (fe *FnEnc) assumePtr(u *types.Pointer, term string) {
	if fe.s.mode == "bv" {
		return
	}
	k := "next_" + sortID(fe.s.sortOf(u.Elem()))
	fe.s.assert("(and (<= 0 " + term + ") (< " + term + " " + fe.s.ghostGet(fe.mem, k, "Int") + "))")
}

func (fe *FnEnc) newCell(prefix string, t types.Type, init string) string {
	fe.s.nfresh++
	ck := fmt.Sprintf("%s%d", prefix, fe.s.nfresh)
	if fe.top.cellInit0 == nil {
		fe.top.cellInit0 = map[string]string{}
	}
	fe.top.cellInit0[ck] = init
	fe.mem.cells[ck] = init
	fe.mem.cellT[ck] = t
	return ck
}

// ptrAddr converts a pointer-typed Val to an address.
func (fe *FnEnc) ptrAddr(v Val) *Addr {
	if v.Addr != nil {
		return v.Addr
	}
	pt, ok := types.Unalias(v.T).Underlying().(*types.Pointer)
	if !ok {
		fe.unsupported("address of non-pointer %v", v.T)
		return &Addr{Root: rootCell, Cell: "bad", RootT: types.Typ[types.Int], Nil: "false"}
	}
	return &Addr{Root: rootHeap, RootT: pt.Elem(), Ref: v.Term, Nil: "(= " + v.Term + " 0)"}
}

// ptrTerm converts a pointer Val to an Int ref (only for whole heap objects).
func (fe *FnEnc) ptrTerm(v Val) (string, bool) {
	if v.Term != "" {
		return v.Term, true
	}
	if v.Addr != nil && v.Addr.Root == rootHeap && len(v.Addr.Steps) == 0 {
		return v.Addr.Ref, true
	}
	return "", false
}

// valTerm gives the SMT term for any first-class Val (materializing views).
func (fe *FnEnc) valTerm(v Val) string {
	switch {
	case v.Term != "":
		return v.Term
	case v.View != nil:
		return fe.s.viewSeq(fe.mem, v.View)
	case v.Map != nil:
		return fe.s.load(fe.mem, v.Map.Origin)
	case v.Addr != nil:
		if t, ok := fe.ptrTerm(v); ok {
			return t
		}
		fe.unsupported("interior pointer used as a first-class value (%v)", v.T)
		return fe.s.fresh("ip", "Int")
	case v.Fn != nil || v.Clo != nil:
		return fe.s.fresh("fnv", "Int")
	}
	if v.T != nil {
		return fe.s.fresh("unk", fe.s.sortOf(v.T))
	}
	return "0"
}

// mergeVals merges values under mutually exclusive guards.
func (fe *FnEnc) mergeVals(gs []string, vs []Val, t types.Type) Val {
	if len(vs) == 0 {
		return fe.freshVal("mv", t)
	}
	if len(vs) == 1 {
		return vs[0]
	}
	allSame := true
	for _, v := range vs[1:] {
		if !sameVal(v, vs[0]) {
			allSame = false
		}
	}
	if allSame {
		return vs[0]
	}
	if len(vs[0].Tup) > 0 {
		out := Val{T: t}
		for i := range vs[0].Tup {
			var es []Val
			for _, v := range vs {
				es = append(es, v.Tup[i])
			}
			out.Tup = append(out.Tup, fe.mergeVals(gs, es, vs[0].Tup[i].T))
		}
		return out
	}
	// address-valued pointers: structural merge
	anyAddr := false
	for _, v := range vs {
		if v.Addr != nil && (len(v.Addr.Steps) > 0 || v.Addr.Root != rootHeap) {
			anyAddr = true
		}
		if len(v.Alts) > 0 {
			anyAddr = true
		}
	}
	if anyAddr {
		if a := fe.mergeAddrs(gs, vs); a != nil {
			return Val{T: t, Addr: a}
		}
		// differently shaped pointers: keep the alternatives
		out := Val{T: t}
		for i, v := range vs {
			if len(v.Alts) > 0 {
				for _, a := range v.Alts {
					out.Alts = append(out.Alts, AltVal{Cond: and(gs[i], a.Cond), V: a.V})
				}
				continue
			}
			out.Alts = append(out.Alts, AltVal{Cond: gs[i], V: v})
		}
		return out
	}
	anyView := false
	for _, v := range vs {
		if v.View != nil {
			anyView = true
		}
	}
	if anyView {
		// same origin => merge offset/len
		same := true
		for _, v := range vs {
			if v.View == nil || !sameAddr(v.View.Origin, vs[0].View.Origin) || v.View.IsArray != vs[0].View.IsArray {
				same = false
			}
		}
		if same {
			off, ln := vs[len(vs)-1].View.Off, vs[len(vs)-1].View.Len
			for i := len(vs) - 2; i >= 0; i-- {
				off = ite(gs[i], vs[i].View.Off, off)
				ln = ite(gs[i], vs[i].View.Len, ln)
			}
			nv := *vs[0].View
			nv.Off, nv.Len = fe.s.name("mo", "Int", off), fe.s.name("ml", "Int", ln)
			return Val{T: t, View: &nv}
		}
	}
	// generic: ite over terms
	srt := fe.s.sortOf(t)
	term := fe.valTerm(vs[len(vs)-1])
	for i := len(vs) - 2; i >= 0; i-- {
		term = ite(gs[i], fe.valTerm(vs[i]), term)
	}
	n := fe.s.name("m", srt, term)
	if anyView || vs[0].Map != nil {
		return fe.wrapTerm(n, t)
	}
	return Val{T: t, Term: n}
}

func sameVal(a, b Val) bool {
	if a.Term != "" || b.Term != "" {
		return a.Term == b.Term && a.Addr == nil && b.Addr == nil
	}
	if a.Addr != nil && b.Addr != nil {
		return sameAddr(a.Addr, b.Addr) && a.Addr.Nil == b.Addr.Nil
	}
	if a.View != nil && b.View != nil {
		return sameAddr(a.View.Origin, b.View.Origin) && a.View.Off == b.View.Off && a.View.Len == b.View.Len
	}
	if a.Map != nil && b.Map != nil {
		return sameAddr(a.Map.Origin, b.Map.Origin)
	}
	if a.Fn != nil && b.Fn != nil {
		return a.Fn == b.Fn
	}
	return false
}

func sameAddr(a, b *Addr) bool {
	if a == nil || b == nil {
		return a == b
	}
	if a.Root != b.Root || a.Ref != b.Ref || a.Cell != b.Cell || len(a.Steps) != len(b.Steps) {
		return false
	}
	for i := range a.Steps {
		if a.Steps[i].Kind != b.Steps[i].Kind || a.Steps[i].Field != b.Steps[i].Field || a.Steps[i].Idx != b.Steps[i].Idx {
			return false
		}
	}
	return true
}

// altsNil: the nil-ness of a pointer given as alternatives.
func (fe *FnEnc) altsNil(v Val) string {
	t := "true"
	for i := len(v.Alts) - 1; i >= 0; i-- {
		a := v.Alts[i]
		var n string
		if a.V.Term == "0" && a.V.Addr == nil {
			n = "true"
		} else {
			n = fe.ptrAddr(a.V).Nil
		}
		t = ite(a.Cond, n, t)
	}
	return t
}

func (fe *FnEnc) mergeAddrs(gs []string, vs []Val) *Addr {
	for _, v := range vs {
		if len(v.Alts) > 0 {
			return nil
		}
	}
	var shape *Addr
	for _, v := range vs {
		a := v.Addr
		if a == nil {
			if v.Term == "0" { // nil constant
				continue
			}
			a = fe.ptrAddr(v)
		}
		if a.Nil == "true" {
			continue
		}
		if shape == nil {
			shape = a
			continue
		}
		if a.Root != shape.Root || a.Cell != shape.Cell || len(a.Steps) != len(shape.Steps) || !types.Identical(a.RootT, shape.RootT) {
			return nil
		}
		for i := range a.Steps {
			if a.Steps[i].Kind != shape.Steps[i].Kind || a.Steps[i].Field != shape.Steps[i].Field {
				return nil
			}
		}
	}
	if shape == nil {
		return nil
	}
	out := &Addr{Root: shape.Root, RootT: shape.RootT, Cell: shape.Cell, Steps: append([]Step{}, shape.Steps...)}
	get := func(v Val) *Addr {
		if v.Addr != nil {
			return v.Addr
		}
		if v.Term == "0" {
			return nil
		}
		return fe.ptrAddr(v)
	}
	pick := func(f func(a *Addr) string, def string) string {
		last := get(vs[len(vs)-1])
		t := def
		if last != nil && last.Nil != "true" {
			t = f(last)
		}
		for i := len(vs) - 2; i >= 0; i-- {
			a := get(vs[i])
			x := def
			if a != nil && a.Nil != "true" {
				x = f(a)
			}
			t = ite(gs[i], x, t)
		}
		return t
	}
	if shape.Root == rootHeap {
		out.Ref = fe.s.name("mr", "Int", pick(func(a *Addr) string { return a.Ref }, "0"))
	}
	for i := range out.Steps {
		if out.Steps[i].Kind != stField {
			ii := i
			out.Steps[i].Idx = fe.s.name("mi", "Int", pick(func(a *Addr) string { return a.Steps[ii].Idx }, "0"))
		}
	}
	// nil flag
	nl := "true"
	{
		last := get(vs[len(vs)-1])
		if last != nil {
			nl = last.Nil
		}
		for i := len(vs) - 2; i >= 0; i-- {
			a := get(vs[i])
			x := "true"
			if a != nil {
				x = a.Nil
			}
			nl = ite(gs[i], x, nl)
		}
	}
	out.Nil = fe.s.name("mn", "Bool", nl)
	return out
}

// val returns the Val of an SSA value.
func (fe *FnEnc) val(v ssa.Value) Val {
	switch x := v.(type) {
	case *ssa.Const:
		return fe.constVal(x)
	case *ssa.Function:
		return Val{T: x.Type(), Fn: x}
	case *ssa.Builtin:
		return Val{T: x.Type(), Fn: x}
	case *ssa.Global:
		et := x.Type().(*types.Pointer).Elem()
		return Val{T: x.Type(), Addr: &Addr{Root: rootGlobal, Cell: "g:" + x.Pkg.Pkg.Path() + "." + x.Name(), RootT: et, Nil: "false"}}
	case *ssa.FreeVar:
		for i, fv := range fe.fn.FreeVars {
			if fv == x && i < len(fe.freeVars) {
				return fe.freeVars[i]
			}
		}
	}
	if r, ok := fe.vals[v]; ok {
		return r
	}
	fe.unsupported("value %s (%T) used before definition", v.Name(), v)
	r := fe.freshVal("undef", v.Type())
	fe.vals[v] = r
	return r
}

func (fe *FnEnc) constVal(c *ssa.Const) Val {
	t := c.Type()
	if c.Value == nil { // zero value / nil
		switch u := types.Unalias(t).Underlying().(type) {
		case *types.Pointer, *types.Interface, *types.Signature, *types.Chan:
			_ = u
			return Val{T: t, Term: "0"}
		case *types.Basic:
			if u.Kind() == types.UntypedNil {
				return Val{T: t, Term: "0"}
			}
		}
		z := fe.s.zero(t)
		switch types.Unalias(t).Underlying().(type) {
		case *types.Slice, *types.Map:
			v := fe.wrapTerm(z, t)
			if v.View != nil {
				v.View.NilFlag = "true"
				v.View.Len = "0"
			}
			return v
		}
		return Val{T: t, Term: z}
	}
	b, _ := types.Unalias(t).Underlying().(*types.Basic)
	if b != nil {
		switch {
		case b.Info()&types.IsBoolean != 0:
			if c.Value.String() == "true" {
				return Val{T: t, Term: "true"}
			}
			return Val{T: t, Term: "false"}
		case b.Info()&types.IsInteger != 0:
			bi, _ := constBig(c)
			return Val{T: t, Term: fe.s.num(bi, t)}
		case b.Info()&types.IsString != 0:
			n := "strc_" + mangle(fmt.Sprintf("%x", hashStr(c.Value.ExactString())))
			fe.s.declFun(n, nil, "Str")
			return Val{T: t, Term: n}
		}
	}
	return Val{T: t, Term: fe.s.fresh("const", fe.s.sortOf(t))}
}

// mergeMems merges memories including generator-level pointer cells.
func (fe *FnEnc) mergeMems(gs []string, ms []*Mem) *Mem {
	out := fe.s.mergeMem(gs, ms)
	keys := map[string]bool{}
	for _, m := range ms {
		for k := range m.ptrs {
			keys[k] = true
		}
	}
	for _, k := range sortedKeys(keys) {
		var vs []Val
		var g2 []string
		for i, m := range ms {
			if v, ok := m.ptrs[k]; ok {
				vs = append(vs, v)
				g2 = append(g2, gs[i])
			}
		}
		if len(vs) > 0 {
			out.ptrs[k] = fe.mergeVals(g2, vs, vs[0].T)
		}
	}
	return out
}

// rangeIndexInv recognises the SSA shape of `for i := range slice`
// (phi #rangeindex from -1, t = phi + 1, if t < L) and returns the implicit
// invariant -1 <= rangeindex < L ("" if the header has no such phi).
func (fe *FnEnc) rangeIndexInv(h *ssa.BasicBlock, over map[*ssa.Phi]Val) string {
	if fe.s.mode != "int" || (fe.top.ct != nil && fe.top.ct.Panics == "off" && fe.top.ct.Opts["rangeindex"] != "on") {
		return ""
	}
	for _, ins := range h.Instrs {
		p, ok := ins.(*ssa.Phi)
		if !ok {
			break
		}
		if p.Comment != "rangeindex" {
			continue
		}
		// find t = p + 1 and If (t < L)
		var inc *ssa.BinOp
		for _, ins2 := range h.Instrs {
			if bo, ok := ins2.(*ssa.BinOp); ok && bo.Op == token.ADD && bo.X == p {
				inc = bo
			}
		}
		if inc == nil {
			return ""
		}
		ifi, ok := h.Instrs[len(h.Instrs)-1].(*ssa.If)
		if !ok {
			return ""
		}
		cmp, ok := ifi.Cond.(*ssa.BinOp)
		if !ok || cmp.Op != token.LSS || cmp.X != inc {
			return ""
		}
		lv, ok := fe.vals[cmp.Y]
		if !ok {
			if _, isC := cmp.Y.(*ssa.Const); isC {
				lv = fe.val(cmp.Y)
			} else {
				return ""
			}
		}
		pv := fe.vals[p]
		if over != nil {
			if v, ok := over[p]; ok {
				pv = v
			}
		}
		if pv.Term == "" || lv.Term == "" {
			return ""
		}
		return "(and (<= (- 1) " + pv.Term + ") (< " + pv.Term + " " + lv.Term + ") (<= 0 " + lv.Term + "))"
	}
	return ""
}
