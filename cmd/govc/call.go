package main

import (
	"fmt"
	"go/token"
	"go/types"
	"math/big"
	"sort"
	"strings"

	"golang.org/x/tools/go/ssa"
)

const maxInlineDepth = 4
const maxInlineInstrs = 400

func fnKey(fn *ssa.Function) string {
	if fn.Pkg == nil && fn.Parent() == nil {
		// synthetic wrappers / instantiations: use object if present
		if fn.Object() != nil && fn.Object().Pkg() != nil {
			return objKey(fn.Object().(*types.Func))
		}
		return fn.String()
	}
	if obj, ok := fn.Object().(*types.Func); ok && obj != nil {
		return objKey(obj)
	}
	return fn.String()
}

func objKey(obj *types.Func) string {
	sig := obj.Type().(*types.Signature)
	pkg := ""
	if obj.Pkg() != nil {
		pkg = obj.Pkg().Path()
	}
	if r := sig.Recv(); r != nil {
		rt := r.Type()
		if p, ok := rt.(*types.Pointer); ok {
			rt = p.Elem()
		}
		if nt, ok := types.Unalias(rt).(*types.Named); ok {
			if nt.Obj().Pkg() != nil {
				pkg = nt.Obj().Pkg().Path()
			}
			return pkg + "." + nt.Obj().Name() + "." + obj.Name()
		}
		// interface method declared in an unnamed interface
		return pkg + ".?." + obj.Name()
	}
	return pkg + "." + obj.Name()
}

func (fe *FnEnc) call(ins ssa.Instruction, c *ssa.CallCommon, rt types.Type) Val {
	pos := ins.Pos()
	var args []Val
	if c.IsInvoke() {
		recv := fe.val(c.Value)
		args = append(args, recv)
		for _, a := range c.Args {
			args = append(args, fe.val(a))
		}
		fe.panicCheck("nilderef", "(not (= "+recv.Term+" 0))", pos)
		key := fe.ifaceMethodKey(c)
		if ct := fe.g.db.Contracts[key]; ct != nil {
			res := fe.useContract(ct, args, rt, pos, key)
			ic := IfaceCall{Method: c.Method.Name(), Guard: fe.guard}
			if rt != nil {
				if len(res.Tup) > 0 {
					ic.Results = res.Tup
				} else {
					ic.Results = []Val{res}
				}
			}
			fe.top.ifaceCalls = append(fe.top.ifaceCalls, ic)
			return res
		}
		return fe.unknownCall("interface method "+key, args, rt)
	}
	for _, a := range c.Args {
		args = append(args, fe.val(a))
	}
	cv := fe.val(c.Value)
	switch f := cv.Fn.(type) {
	case noopFn:
		if rt == nil {
			return Val{}
		}
		return fe.freshVal("noop", rt)
	case specFn:
		// a function value known (by its producer's contract) to compute a pure spec function
		env := map[string]Val{}
		var as []Expr
		for i, a := range args {
			n := fmt.Sprintf("zza%d", i)
			env[n] = a
			as = append(as, &EName{Name: n})
		}
		ev := fe.newEval(fe.mem, fe.mem, env)
		ev.calleePkg = f.pkg
		t := ev.evalTerm(&ECall{Fn: f.name, Args: as})
		rv := fe.wrapTerm(fe.s.name("sf", fe.s.sortOf(rt), t), rt)
		fe.checkOnly = fe.willForget()
		fe.afterCall(f.name, rv, pos)
		fe.checkOnly = false
		return fe.forgetHinted(rv, rt, pos)
	case contractFn:
		// a function value whose calls are specified by a named (assumed) contract: the value's identity is
		// the contract's first parameter
		ct := fe.g.db.Contracts[f.key]
		if ct == nil {
			return fe.unknownCall("function value with unknown contract "+f.key, args, rt)
		}
		return fe.useContract(ct, append([]Val{{Term: f.id}}, args...), rt, pos, f.key)
	case *ssa.Builtin:
		return fe.builtin(f, c, args, rt, pos)
	case *ssa.Function:
		return fe.staticCall(f, nil, args, rt, pos)
	case *ssa.Global:
		// call through a package-level function variable
		key := f.Pkg.Pkg.Path() + "." + f.Name()
		if ct := fe.g.db.Contracts[key]; ct != nil {
			return fe.useContract(ct, args, rt, pos, key)
		}
		return fe.unknownCall("function variable "+key, args, rt)
	}
	if cv.Clo != nil {
		return fe.staticCall(cv.Clo.Fn.(*ssa.Function), cv.Clo.Bindings, args, rt, pos)
	}
	// a function-typed struct field declared to compute a spec function (fieldfn)
	if un, ok := c.Value.(*ssa.UnOp); ok && un.Op == token.MUL && rt != nil {
		if fa, ok := un.X.(*ssa.FieldAddr); ok {
			if pt, ok := types.Unalias(fa.X.Type()).Underlying().(*types.Pointer); ok {
				if nt, ok := types.Unalias(pt.Elem()).(*types.Named); ok && nt.Obj().Pkg() != nil {
					if st, ok := nt.Underlying().(*types.Struct); ok {
						key := nt.Obj().Pkg().Path() + "." + nt.Obj().Name() + "." + st.Field(fa.Field).Name()
						if uf := fe.g.db.FieldFns[key]; uf != "" {
							fe.s.note("calls of %s.%s are assumed to compute %s(struct, arguments) without effects", nt.Obj().Name(), st.Field(fa.Field).Name(), uf)
							env := map[string]Val{"zzself": fe.val(fa.X)}
							as := []Expr{&EName{Name: "zzself"}}
							for i, a := range args {
								n := fmt.Sprintf("zza%d", i)
								env[n] = a
								as = append(as, &EName{Name: n})
							}
							ev := fe.newEval(fe.mem, fe.mem, env)
							ev.calleePkg = nt.Obj().Pkg().Path()
							t := ev.evalTerm(&ECall{Fn: uf, Args: as})
							rv := fe.wrapTerm(fe.s.name("ff", fe.s.sortOf(rt), t), rt)
							fe.s.assumeRange(rt, rv.Term)
							return rv
						}
					}
				}
			}
		}
	}
	// function-typed parameter declared pure in the contract
	if p, ok := c.Value.(*ssa.Parameter); ok && fe.top.ct != nil {
		name := fe.paramName(p)
		if pure := fe.top.ct.Opts["pure_func"]; pure != "" {
			for _, pn := range strings.Split(pure, ",") {
				if strings.TrimSpace(pn) == name {
					return fe.pureFuncCall(name, p, args, rt)
				}
			}
		}
	}
	if fe.top.ct != nil && fe.top.ct.Opts["dyncalls"] == "args-only" {
		// assumption (recorded): function values supplied by the caller only touch what they are handed
		fe.s.note("dynamic calls in %s are assumed to write only memory reachable from their arguments", fe.top.fnName())
		fe.top.havocked["assumed: dynamic calls write only their arguments in "+fe.top.fnName()] = true
		for _, a := range args {
			fe.havocReachable(a)
		}
		if rt == nil {
			return Val{}
		}
		return fe.freshVal("dc", rt)
	}
	return fe.unknownCall(fmt.Sprintf("dynamic call of %s", c.Value.Name()), args, rt)
}

func (fe *FnEnc) paramName(p *ssa.Parameter) string {
	ct := fe.top.ct
	fn := fe.top.fn
	names := ct.Params
	off := 0
	if fn.Signature.Recv() != nil {
		off = 1
	}
	for i, q := range fn.Params {
		if q == p {
			if off == 1 && i == 0 {
				return ct.RecvName
			}
			if i-off < len(names) {
				return names[i-off]
			}
		}
	}
	return p.Name()
}

// pureFuncCall models a call of a function-typed parameter as an
// uninterpreted pure function of its arguments (assumption recorded).
func (fe *FnEnc) pureFuncCall(name string, p *ssa.Parameter, args []Val, rt types.Type) Val {
	s := fe.s
	fn := "pf_" + mangle(fe.top.fnName()) + "_" + name
	var as, sorts []string
	for _, a := range args {
		as = append(as, fe.valTerm(a))
		sorts = append(sorts, s.sortOf(a.T))
	}
	s.note("function-typed parameter %s of %s is assumed pure (deterministic, no side effects)", name, fe.top.fnName())
	if tup, ok := rt.(*types.Tuple); ok && tup.Len() != 1 {
		out := Val{T: rt}
		for i := 0; i < tup.Len(); i++ {
			ct := tup.At(i).Type()
			fi := fmt.Sprintf("%s_%d", fn, i)
			s.declFun(fi, sorts, s.sortOf(ct))
			t := "(" + fi + " " + strings.Join(as, " ") + ")"
			if len(as) == 0 {
				t = fi
			}
			n := s.name("pf", s.sortOf(ct), t)
			s.assumeRange(ct, n)
			out.Tup = append(out.Tup, fe.wrapTerm(n, ct))
		}
		return out
	}
	rs := s.sortOf(rt)
	s.declFun(fn, sorts, rs)
	t := "(" + fn + " " + strings.Join(as, " ") + ")"
	if len(as) == 0 {
		t = fn
	}
	n := s.name("pf", rs, t)
	s.assumeRange(rt, n)
	return fe.wrapTerm(n, rt)
}

func (fe *FnEnc) ifaceMethodKey(c *ssa.CallCommon) string {
	return objKey(c.Method)
}

func (fe *FnEnc) staticCall(f *ssa.Function, bindings []Val, args []Val, rt types.Type, pos token.Pos) Val {
	key := fnKey(f)
	if ct := fe.g.db.Contracts[key]; ct != nil && bindings == nil {
		inlinable := (fe.g.inlineForReplay || ct.Opts["inline"] == "always") && !ct.Trusted && f.Blocks != nil && fe.g.inRepo(f) && !fe.onStack(f) && fe.depth < maxInlineDepth
		if !inlinable {
			fe.top.staticContractCalls++
			return fe.useContractFn(ct, f, args, rt, pos, key)
		}
		return fe.inline(f, bindings, args, rt)
	}
	if v, ok := fe.externModel(key, f, args, rt, pos); ok {
		fe.afterCall(key[strings.LastIndex(key, ".")+1:], v, pos)
		return v
	}
	// thin contracts (opt inline=closures): helpers that are not handed a context are not looked into
	if fe.top.ct != nil && fe.top.ct.Opts["inline"] == "closures" && bindings == nil && f.Parent() == nil {
		takesVia := false
		for _, via := range fe.g.db.GhostVia {
			for _, a := range args {
				if a.T != nil && types.TypeString(a.T, nil) == via {
					takesVia = true
				}
			}
		}
		if !takesVia {
			return fe.unknownCall("call of "+key+" (not inlined)", args, rt)
		}
	}
	// inline
	if f.Blocks != nil && fe.depth < maxInlineDepth && !fe.onStack(f) && fe.g.inRepo(f) {
		n := 0
		for _, b := range f.Blocks {
			n += len(b.Instrs)
		}
		if n <= maxInlineInstrs {
			return fe.inline(f, bindings, args, rt)
		}
	}
	return fe.unknownCall("call of "+key, args, rt)
}

func (fe *FnEnc) onStack(f *ssa.Function) bool {
	for x := fe; x != nil; x = x.parent {
		if x.fn == f {
			return true
		}
	}
	return false
}

func (fe *FnEnc) inline(f *ssa.Function, bindings []Val, args []Val, rt types.Type) Val {
	top := fe.top
	top.inlined[shortFn(f)] = true
	child := &FnEnc{g: fe.g, s: fe.s, top: top, parent: fe, fn: f, vals: map[ssa.Value]Val{}, depth: fe.depth + 1,
		guard: fe.guard, mem: fe.mem, freeVars: bindings}
	name := f.Name()
	if f.Signature.Recv() == nil && f.Parent() != nil {
		name = "closure"
	}
	if fe.sitePrefix != "" {
		child.sitePrefix = fe.sitePrefix + "." + name
	} else {
		child.sitePrefix = name
	}
	child.run(args)
	// merge returns
	var gs []string
	var ms []*Mem
	for _, r := range child.rets {
		gs = append(gs, r.guard)
		ms = append(ms, r.mem)
	}
	if len(gs) == 0 {
		// never returns (always panics)
		fe.guard = "false"
		if rt == nil {
			return Val{}
		}
		return fe.freshVal("nr", rt)
	}
	fe.guard = fe.s.name("g", "Bool", or(gs...))
	fe.mem = fe.mergeMems(gs, ms)
	if rt == nil {
		return Val{}
	}
	nres := f.Signature.Results().Len()
	switch nres {
	case 0:
		return Val{}
	case 1:
		var vs []Val
		for _, r := range child.rets {
			vs = append(vs, r.vals[0])
		}
		return fe.mergeVals(gs, vs, f.Signature.Results().At(0).Type())
	}
	out := Val{T: rt}
	for i := 0; i < nres; i++ {
		var vs []Val
		for _, r := range child.rets {
			vs = append(vs, r.vals[i])
		}
		out.Tup = append(out.Tup, fe.mergeVals(gs, vs, f.Signature.Results().At(i).Type()))
	}
	return out
}

func (fe *FnEnc) unknownCall(what string, args []Val, rt types.Type) Val {
	fe.s.note("%s in %s has no contract: results unconstrained, all heaps havocked", what, fe.fnName())
	fe.havocAll(what)
	// slices/maps (and locals whose address is passed) may be modified; heap objects are covered by havocAll
	for _, a := range args {
		if a.View != nil || a.Map != nil || (a.Addr != nil && a.Addr.Root != rootHeap) {
			fe.havocReachable(a)
		}
	}
	// ghost state carried by an argument (declared "via" its type) may change too
	for _, gn := range sortedKeys(fe.g.db.GhostVia) {
		via := fe.g.db.GhostVia[gn]
		for _, a := range args {
			if a.T != nil && types.TypeString(a.T, nil) == via {
				fe.mem.ghost[gn] = fe.s.fresh("hg", fe.s.ghostSortOf(gn))
				fe.recordMod([]string{"ghost:" + gn})
				break
			}
		}
	}
	if rt == nil {
		return Val{}
	}
	return fe.freshVal("uc", rt)
}

// afterCall discharges the "after Callee@k" clauses of the function being encoded (its own contract,
// also when it is inlined): checked at this point of the path, then assumed.
func (fe *FnEnc) ownContract() *Contract {
	if fe.ct != nil {
		return fe.ct
	}
	return fe.g.contractFor(fe.fn)
}

func (fe *FnEnc) afterCall(_ string, res Val, pos token.Pos) {
	own := fe.ownContract()
	if own == nil || len(own.Afters) == 0 || fe.curBlock == nil || fe.curIdx >= len(fe.curBlock.Instrs) {
		return
	}
	ci, ok := fe.curBlock.Instrs[fe.curIdx].(ssa.CallInstruction)
	if !ok {
		return
	}
	if ord, ok := fe.g.callOrdinals(fe.fn)[ci]; ok {
		fe.afterAt(own, ord, res, pos)
	}
}

// willForget: does opt forget apply to the call being encoded?
func (fe *FnEnc) willForget() bool {
	own := fe.ownContract()
	if own == nil || own.Opts["forget"] == "" || fe.curBlock == nil || fe.curIdx >= len(fe.curBlock.Instrs) {
		return false
	}
	ci, ok := fe.curBlock.Instrs[fe.curIdx].(ssa.CallInstruction)
	if !ok {
		return false
	}
	ord, ok := fe.g.callOrdinals(fe.fn)[ci]
	if !ok {
		return false
	}
	asked, hinted := false, false
	for _, n := range strings.Split(own.Opts["forget"], ",") {
		if strings.TrimSpace(n) == ord.name {
			asked = true
		}
	}
	for _, ac := range own.Afters {
		if ac.Callee == ord.name && ac.K == ord.k {
			hinted = true
		}
	}
	return asked && hinted
}

// forgetHinted (opt forget=<name,...> on the function's own contract): the result of a hinted call is
// replaced by a fresh value about which only the (just proved) hints are known. Forgetting facts is
// always sound; it keeps definitions that only mattered for the hints out of later obligations.
func (fe *FnEnc) forgetHinted(res Val, rt types.Type, pos token.Pos) Val {
	own := fe.ownContract()
	if own == nil || own.Opts["forget"] == "" || fe.curBlock == nil || fe.curIdx >= len(fe.curBlock.Instrs) {
		return res
	}
	ci, ok := fe.curBlock.Instrs[fe.curIdx].(ssa.CallInstruction)
	if !ok {
		return res
	}
	ord, ok := fe.g.callOrdinals(fe.fn)[ci]
	if !ok {
		return res
	}
	asked := false
	for _, n := range strings.Split(own.Opts["forget"], ",") {
		if strings.TrimSpace(n) == ord.name {
			asked = true
		}
	}
	hinted := false
	for _, ac := range own.Afters {
		if ac.Callee == ord.name && ac.K == ord.k {
			hinted = true
		}
	}
	if !asked || !hinted {
		return res
	}
	fresh := fe.freshVal("fg", rt)
	for _, ac := range own.Afters {
		if ac.Callee != ord.name || ac.K != ord.k {
			continue
		}
		env := map[string]Val{}
		for k, v := range fe.loopEnv() {
			env[k] = v
		}
		env["result"] = fresh
		ev := fe.newEval(fe.mem, fe.top.entryMem, env)
		ev.resolve = fe.pointResolver(fe.curBlock, fe.curIdx+1, ev)
		fe.s.assert(implies(fe.guard, ev.evalAssume(ac.E)))
	}
	return fresh
}

// afterAt discharges the after-clauses attached to the program point (name, k): checked here, then assumed.
func (fe *FnEnc) afterAt(own *Contract, ord callOrd, res Val, pos token.Pos) {
	for _, ac := range own.Afters {
		if ac.Callee != ord.name || ac.K != ord.k {
			continue
		}
		env := map[string]Val{}
		for k, v := range fe.loopEnv() {
			env[k] = v
		}
		env["result"] = res
		ev := fe.newEval(fe.mem, fe.top.entryMem, env)
		ev.resolve = fe.pointResolver(fe.curBlock, fe.curIdx+1, ev)
		fe.check("after", fmt.Sprintf("%s@%d.%s", ord.name, ac.K, ac.Label), ev.evalBool(ac.E), ac.Src, pos)
	}
}

// defOrdinals numbers the assignments of each local (its DebugRefs) in source order, as "=name".
func (g *Gen) defOrdinals(fn *ssa.Function) map[*ssa.DebugRef]callOrd {
	if g.defOrds == nil {
		g.defOrds = map[*ssa.Function]map[*ssa.DebugRef]callOrd{}
	}
	if m, ok := g.defOrds[fn]; ok {
		return m
	}
	var refs []*ssa.DebugRef
	for _, b := range fn.Blocks {
		for _, ins := range b.Instrs {
			if d, ok := ins.(*ssa.DebugRef); ok && !d.IsAddr && d.Object() != nil {
				// only definitions: the identifier is being assigned (its position is the identifier itself)
				refs = append(refs, d)
			}
		}
	}
	sort.SliceStable(refs, func(i, j int) bool { return refs[i].Pos() < refs[j].Pos() })
	m := map[*ssa.DebugRef]callOrd{}
	cnt := map[string]int{}
	for _, d := range refs {
		n := "=" + d.Object().Name()
		cnt[n]++
		m[d] = callOrd{n, cnt[n]}
	}
	g.defOrds[fn] = m
	return m
}

type callOrd struct {
	name string
	k    int
}

// callOrdinals numbers the calls of a function per called name (the function, method, function
// variable or parameter named at the call site) in source order: "after hashFn@2" is the second
// call of hashFn in the text of the function, wherever the encoder meets it.
func (g *Gen) callOrdinals(fn *ssa.Function) map[ssa.CallInstruction]callOrd {
	if g.callOrds == nil {
		g.callOrds = map[*ssa.Function]map[ssa.CallInstruction]callOrd{}
	}
	if m, ok := g.callOrds[fn]; ok {
		return m
	}
	type site struct {
		ci   ssa.CallInstruction
		name string
	}
	var sites []site
	for _, b := range fn.Blocks {
		for _, ins := range b.Instrs {
			ci, ok := ins.(ssa.CallInstruction)
			if !ok {
				continue
			}
			cc := ci.Common()
			name := ""
			if cc.IsInvoke() {
				name = cc.Method.Name()
			} else {
				switch v := cc.Value.(type) {
				case *ssa.Function:
					name = v.Name()
				case *ssa.Global:
					name = v.Name()
				case *ssa.Parameter:
					name = v.Name()
				case *ssa.FreeVar:
					name = v.Name()
				case *ssa.Builtin:
					name = v.Name()
				default:
					name = cc.Value.Name()
				}
			}
			sites = append(sites, site{ci, name})
		}
	}
	sort.SliceStable(sites, func(i, j int) bool { return sites[i].ci.Pos() < sites[j].ci.Pos() })
	m := map[ssa.CallInstruction]callOrd{}
	cnt := map[string]int{}
	for _, st := range sites {
		cnt[st.name]++
		m[st.ci] = callOrd{st.name, cnt[st.name]}
	}
	g.callOrds[fn] = m
	return m
}

// closureArgEffects over-approximates what a callee does by invoking a closure it was handed.
func (fe *FnEnc) closureArgEffects(c *Closure, callee string) {
	fn, _ := c.Fn.(*ssa.Function)
	if fn == nil || fn.Blocks == nil {
		fe.havocAll("closure argument of " + callee)
		return
	}
	written := map[int]bool{}
	unknown := ""
	fvIndex := func(v ssa.Value) int {
		for i, f := range fn.FreeVars {
			if v == f {
				return i
			}
		}
		return -1
	}
	for _, b := range fn.Blocks {
		for _, ins := range b.Instrs {
			switch x := ins.(type) {
			case *ssa.Store:
				root := x.Addr
				for {
					switch a := root.(type) {
					case *ssa.IndexAddr:
						root = a.X
						continue
					case *ssa.FieldAddr:
						root = a.X
						continue
					}
					break
				}
				if i := fvIndex(root); i >= 0 {
					written[i] = true
				} else if _, local := root.(*ssa.Alloc); !local {
					unknown = "a store through a pointer"
				}
			case *ssa.MapUpdate, *ssa.Send, *ssa.Go, *ssa.Defer, *ssa.MakeClosure:
				unknown = fmt.Sprintf("%T", x)
			case ssa.CallInstruction:
				cc := x.Common()
				if cc.IsInvoke() {
					if ct := fe.g.db.Contracts[fe.ifaceMethodKey(cc)]; ct == nil || len(ct.Assigns) > 0 {
						unknown = "interface call " + cc.Method.Name()
					}
					continue
				}
				switch f := cc.Value.(type) {
				case *ssa.Builtin:
					if f.Name() == "copy" || f.Name() == "delete" {
						unknown = "builtin " + f.Name()
					}
				case *ssa.Function:
					key := fnKey(f)
					if ct := fe.g.db.Contracts[key]; ct != nil {
						if len(ct.Assigns) > 0 {
							unknown = "call of " + key
						}
					} else if _, ok := pureExterns[key]; !ok {
						unknown = "call of " + key
					}
				default:
					unknown = "dynamic call"
				}
			}
		}
	}
	if unknown != "" {
		fe.s.note("closure passed to %s in %s contains %s: all heaps havocked", callee, fe.fnName(), unknown)
		fe.havocAll("closure argument of " + callee + " (" + unknown + ")")
	}
	fe.s.note("closure passed to %s in %s: captured variables it assigns are havocked after the call", callee, fe.fnName())
	for i, b := range c.Bindings {
		if written[i] || unknown != "" {
			fe.havocReachable(b)
		}
	}
}

// calls without side effects that closures may contain
var pureExterns = map[string]bool{"fmt.Errorf": true, "errors.New": true, "fmt.Sprintf": true}

func (fe *FnEnc) havocReachable(a Val) {
	s := fe.s
	if a.View != nil && !a.View.IsStr {
		cur := s.load(fe.mem, a.View.Origin)
		es := s.sortOf(a.View.Elem)
		var nv string
		if a.View.IsArray {
			nv = s.fresh("ha", s.sortOf(a.View.Origin.elemType()))
		} else {
			nv = s.mkSeq(es, s.seqLen(es, cur), s.fresh("ha", "(Array Int "+es+")"))
		}
		fe.recordMod(s.store(fe.mem, a.View.Origin, nv))
	}
	if a.Map != nil {
		nv := s.fresh("hm", s.sortOf(a.Map.T))
		s.assumeRange(a.Map.T, nv)
		fe.recordMod(s.store(fe.mem, a.Map.Origin, nv))
	}
	if pt, ok := types.Unalias(a.T).Underlying().(*types.Pointer); ok && a.T != nil {
		if _, isStruct := structOf(pt.Elem()); isStruct {
			if ad := fe.ptrAddr(a); ad.Root == rootHeap && len(ad.Steps) == 0 {
				nv := s.fresh("hs", s.sortOf(pt.Elem()))
				s.assumeRange(pt.Elem(), nv)
				fe.recordMod(s.store(fe.mem, ad, nv))
				return
			}
		}
	}
	if a.Addr != nil && a.Addr.Root != rootHeap {
		t := a.Addr.elemType()
		nv := s.fresh("hp", s.sortOf(t))
		s.assumeRange(t, nv)
		fe.recordMod(s.store(fe.mem, a.Addr, nv))
	}
}

// externModel: built-in models for a few standard-library functions.
func (fe *FnEnc) externModel(key string, f *ssa.Function, args []Val, rt types.Type, pos token.Pos) (Val, bool) {
	s := fe.s
	switch key {
	case "fmt.Errorf", "errors.New":
		n := s.fresh("err", "Int")
		s.assert("(not (= " + n + " 0))")
		return Val{T: rt, Term: n}, true
	case "sort.Slice", "sort.SliceStable":
		// reorders the elements of the slice it is handed: the order is not modelled (the elements are
		// havocked, the length stays); the comparison closure's own writes are havocked as for any closure argument
		if len(args) == 2 && args[0].Boxed != nil && args[0].Boxed.View != nil {
			s.note("%s in %s: the slice's elements are havocked (order not modelled)", key, fe.fnName())
			fe.havocReachable(*args[0].Boxed)
			if args[1].Clo != nil {
				fe.closureArgEffects(args[1].Clo, key)
			}
			return Val{}, true
		}
	case "fmt.Sprintf", "fmt.Sprint", "fmt.Sprintln", "strconv.Itoa", "strconv.FormatUint", "encoding/hex.EncodeToString":
		return Val{T: rt, Term: s.fresh("str", "Str")}, true
	case "fmt.Println", "fmt.Printf", "log.Printf", "log.Println":
		if rt == nil {
			return Val{}, true
		}
		return fe.freshVal("pr", rt), true
	case "sync.Mutex.Lock", "sync.RWMutex.Lock":
		fe.lockOp(args[0], "lock", pos)
		return Val{}, true
	case "sync.Mutex.Unlock", "sync.RWMutex.Unlock":
		fe.lockOp(args[0], "unlock", pos)
		return Val{}, true
	case "sync.RWMutex.RLock":
		fe.lockOp(args[0], "rlock", pos)
		return Val{}, true
	case "sync.RWMutex.RUnlock":
		fe.lockOp(args[0], "runlock", pos)
		return Val{}, true
	case "context.WithTimeout", "context.WithCancel", "context.WithDeadline":
		// a derived context and its cancel function (calling it has no effect on modelled state)
		n := s.fresh("ctx", "Int")
		s.assert("(not (= " + n + " 0))")
		tup := rt.(*types.Tuple)
		return Val{T: rt, Tup: []Val{{T: tup.At(0).Type(), Term: n}, {T: tup.At(1).Type(), Fn: noopFn{}}}}, true
	case "context.Background", "context.TODO":
		n := s.fresh("ctx", "Int")
		s.assert("(not (= " + n + " 0))")
		return Val{T: rt, Term: n}, true
	case "bytes.Compare":
		// lexicographic comparison: an uninterpreted function of the two sequences with values -1, 0, 1
		a, b := fe.valTerm(args[0]), fe.valTerm(args[1])
		es := s.sortOf(types.Typ[types.Uint8])
		s.declFun("u_bytes_cmp", []string{s.seqSort(es), s.seqSort(es)}, "Int")
		s.usedSpec["bytes_cmp"] = true
		r := s.name("bcmp", "Int", "(u_bytes_cmp "+a+" "+b+")")
		s.assert("(and (<= (- 1) " + r + ") (<= " + r + " 1))")
		return Val{T: rt, Term: r}, true
	case "encoding/binary.littleEndian.PutUint64", "encoding/binary.littleEndian.PutUint32":
		// b[k] = byte k of v, little-endian; panics unless len(b) >= width
		if len(args) == 3 && args[1].View != nil && s.mode == "int" {
			w := 8
			if strings.HasSuffix(key, "32") {
				w = 4
			}
			vw := args[1].View
			fe.panicCheck("index", fmt.Sprintf("(<= %d %s)", w, vw.Len), pos)
			x := args[2].Term
			for k := 0; k < w; k++ {
				bt := fmt.Sprintf("(mod (div %s %s) 256)", x, new(big.Int).Lsh(big.NewInt(1), uint(8*k)).String())
				fe.recordMod(s.store(fe.mem, s.viewElemAddr(vw, fmt.Sprint(k)), s.name("leb", "Int", bt)))
			}
			return Val{}, true
		}
	case "encoding/binary.littleEndian.Uint64", "encoding/binary.littleEndian.Uint32":
		if len(args) == 2 && args[1].View != nil && s.mode == "int" {
			w := 8
			if strings.HasSuffix(key, "32") {
				w = 4
			}
			vw := args[1].View
			fe.panicCheck("index", fmt.Sprintf("(<= %d %s)", w, vw.Len), pos)
			var parts []string
			for k := 0; k < w; k++ {
				el := s.load(fe.mem, s.viewElemAddr(vw, fmt.Sprint(k)))
				parts = append(parts, fmt.Sprintf("(* %s %s)", el, new(big.Int).Lsh(big.NewInt(1), uint(8*k)).String()))
			}
			r := s.name("leu", "Int", "(+ "+strings.Join(parts, " ")+")")
			s.assumeRange(rt, r)
			return Val{T: rt, Term: r}, true
		}
	case "bytes.Equal":
		a, b := fe.valTerm(args[0]), fe.valTerm(args[1])
		es := s.sortOf(types.Typ[types.Uint8])
		// equal iff same length and same elements in range. Stated as two implications so that the only
		// quantifier is one that is assumed (E-matching copes with that; an equivalence with a quantifier
		// inside needs the quantifier in both polarities): the "unequal" direction names a witness position.
		r := s.fresh("beq", "Bool")
		la, lb := s.seqLen(es, a), s.seqLen(es, b)
		aa, ab := s.seqArr(es, a), s.seqArr(es, b)
		s.assert(fmt.Sprintf("(=> %s (and (= %s %s) (forall ((k Int)) (! (=> (and (<= 0 k) (< k %s)) (= (select %s k) (select %s k))) :pattern ((select %s k)) :pattern ((select %s k))))))",
			r, la, lb, la, aa, ab, aa, ab))
		w := s.fresh("beqw", "Int")
		s.assert(fmt.Sprintf("(=> (not %s) (or (not (= %s %s)) (and (<= 0 %s) (< %s %s) (not (= (select %s %s) (select %s %s))))))",
			r, la, lb, w, w, la, aa, w, ab, w))
		return Val{T: rt, Term: r}, true
	}
	return Val{}, false
}

// lockOp: ghost lock state per mutex address: 0 free, 1 read-held, 2 write-held
// (what the current goroutine holds).
func (fe *FnEnc) lockOp(mu Val, op string, pos token.Pos) {
	s := fe.s
	a := fe.ptrAddr(mu)
	key := lockKey(a)
	if key == "" {
		fe.unsupported("lock operation on untracked mutex")
		return
	}
	gk := "lock_" + key
	fe.g.ghostSorts[gk] = "(Array Int Int)"
	cur := s.ghostGet(fe.mem, gk, "(Array Int Int)")
	ref := a.Ref
	if ref == "" {
		ref = "0"
	}
	st := "(select " + cur + " " + ref + ")"
	set := func(v string) {
		fe.mem.ghost[gk] = s.name("lk", "(Array Int Int)", "(store "+cur+" "+ref+" "+v+")")
		fe.recordMod([]string{"ghost:" + gk})
	}
	top := fe.top
	lab := func(k string) string {
		top.sites["lock:"+k]++
		return fmt.Sprintf("@%d", top.sites["lock:"+k])
	}
	if op == "lock" || op == "rlock" {
		fe.bumpSections(key, ref)
	}
	switch op {
	case "lock":
		fe.check("lock:reentry", lab("reentry"), "(= "+st+" 0)", "Lock while this goroutine already holds the mutex (self-deadlock)", pos)
		set("2")
	case "rlock":
		fe.check("lock:reentry", lab("reentry"), "(= "+st+" 0)", "RLock while this goroutine already holds the mutex", pos)
		set("1")
	case "unlock":
		fe.check("lock:unlock", lab("unlock"), "(= "+st+" 2)", "Unlock of a mutex not write-held", pos)
		set("0")
	case "runlock":
		fe.check("lock:unlock", lab("unlock"), "(= "+st+" 1)", "RUnlock of a mutex not read-held", pos)
		set("0")
	}
}

// bumpSections counts the critical sections this call has opened on a mutex (ghost, per mutex address):
// contracts read it as sections(mu), and "one section per operation" is how an exported method states that
// what it reads and what it then writes are one atomic step (no check-then-act across a released lock).
func (fe *FnEnc) bumpSections(key, ref string) {
	s := fe.s
	gk := "lock_sect_" + key
	fe.g.ghostSorts[gk] = "(Array Int Int)"
	cur := s.ghostGet(fe.mem, gk, "(Array Int Int)")
	fe.mem.ghost[gk] = s.name("sc", "(Array Int Int)", "(store "+cur+" "+ref+" (+ (select "+cur+" "+ref+") 1))")
	fe.recordMod([]string{"ghost:" + gk})
}

// lockKey names the mutex field an address denotes: <StructSort>.<field path>.
func lockKey(a *Addr) string {
	if a.Root != rootHeap {
		return ""
	}
	t := a.RootT
	parts := []string{mangle(types.TypeString(t, nil))}
	for _, st := range a.Steps {
		if st.Kind != stField {
			return ""
		}
		stt, _ := structOf(st.T)
		parts = append(parts, stt.Field(st.Field).Name())
	}
	return strings.Join(parts, "_")
}

func (fe *FnEnc) builtin(b *ssa.Builtin, c *ssa.CallCommon, args []Val, rt types.Type, pos token.Pos) Val {
	s := fe.s
	switch b.Name() {
	case "len":
		a := args[0]
		switch {
		case a.View != nil:
			if a.View.IsStr {
				s.declFun("str_len", []string{"Str"}, "Int")
				return Val{T: rt, Term: "(str_len " + a.View.StrTerm + ")"}
			}
			return Val{T: rt, Term: a.View.Len}
		case a.Map != nil:
			mt := a.Map.T
			cur := s.load(fe.mem, a.Map.Origin)
			ks, vs := s.sortOf(mt.Key()), s.sortOf(mt.Elem())
			n := s.name("mlen", "Int", ite(s.mapPart(ks, vs, "mnil", cur), "0", s.mapPart(ks, vs, "msize", cur)))
			s.assert("(<= 0 " + n + ")")
			return Val{T: rt, Term: n}
		}
		if at, ok := types.Unalias(a.T).Underlying().(*types.Array); ok {
			return Val{T: rt, Term: fmt.Sprint(at.Len())}
		}
		if bt, ok := types.Unalias(a.T).Underlying().(*types.Basic); ok && bt.Info()&types.IsString != 0 {
			s.declFun("str_len", []string{"Str"}, "Int")
			n := s.name("sl", "Int", "(str_len "+a.Term+")")
			s.assert("(<= 0 " + n + ")")
			return Val{T: rt, Term: n}
		}
	case "cap":
		a := args[0]
		if a.View != nil {
			return Val{T: rt, Term: fe.viewCap(a.View)}
		}
	case "append":
		return fe.appendBuiltin(args, rt, pos)
	case "copy":
		return fe.copyBuiltin(args, rt)
	case "delete":
		m := args[0]
		if m.Map != nil {
			mt := m.Map.T
			ks, vs := s.sortOf(mt.Key()), s.sortOf(mt.Elem())
			cur := s.name("mcur", s.sortOf(mt), s.load(fe.mem, m.Map.Origin))
			k := fe.valTerm(args[1])
			has := s.mapPart(ks, vs, "mhas", cur)
			size := s.mapPart(ks, vs, "msize", cur)
			nm := s.mkMap(ks, vs, s.mapPart(ks, vs, "mnil", cur), "(store "+has+" "+k+" false)", s.mapPart(ks, vs, "mval", cur),
				"(ite (select "+has+" "+k+") (- "+size+" 1) "+size+")")
			fe.recordMod(s.store(fe.mem, m.Map.Origin, nm))
			return Val{}
		}
	case "min", "max":
		if len(args) == 2 && s.mode == "int" {
			a, bb := args[0].Term, args[1].Term
			if b.Name() == "min" {
				return Val{T: rt, Term: "(ite (<= " + a + " " + bb + ") " + a + " " + bb + ")"}
			}
			return Val{T: rt, Term: "(ite (>= " + a + " " + bb + ") " + a + " " + bb + ")"}
		}
	case "ssa:wrapnilchk":
		return args[0]
	case "print", "println":
		return Val{}
	}
	fe.unsupported("builtin %s", b.Name())
	if rt == nil {
		return Val{}
	}
	return fe.freshVal("bi", rt)
}

func (fe *FnEnc) appendBuiltin(args []Val, rt types.Type, pos token.Pos) Val {
	s := fe.s
	a, b := args[0], args[1]
	st := rt.Underlying().(*types.Slice)
	es := s.sortOf(st.Elem())
	if a.View == nil || (b.View == nil) {
		fe.unsupported("append with non-view operands")
		return fe.freshVal("ap", rt)
	}
	la, lb := a.View.Len, b.View.Len
	var narr string
	ca, okA := isConstTerm(la)
	cb, okB := isConstTerm(lb)
	if okA && okB && ca.IsInt64() && cb.IsInt64() && ca.Int64()+cb.Int64() <= 256 {
		// both lengths are constants: the result is a ground chain of element terms
		// (syntactically equal appends give syntactically equal sequences)
		narr = "((as const (Array Int " + es + ")) " + s.zero(st.Elem()) + ")"
		k := int64(0)
		for _, vw := range []*View{a.View, b.View} {
			n := ca.Int64()
			if vw == b.View {
				n = cb.Int64()
			}
			for j := int64(0); j < n; j++ {
				el := s.load(fe.mem, s.viewElemAddr(vw, fmt.Sprint(j)))
				narr = fmt.Sprintf("(store %s %d %s)", narr, k, el)
				k++
			}
		}
		narr = s.name("apr", "(Array Int "+es+")", narr)
	} else if okB && cb.IsInt64() && cb.Int64() <= 16 && a.View.Off == "0" && !a.View.IsArray && !a.View.IsStr {
		// appending a constant number of elements: stores on top of the old backing array (no quantifier)
		base := s.load(fe.mem, a.View.Origin)
		narr = s.seqArr(es, base)
		for j := int64(0); j < cb.Int64(); j++ {
			el := s.load(fe.mem, s.viewElemAddr(b.View, fmt.Sprint(j)))
			idx := la
			if j > 0 {
				idx = fmt.Sprintf("(+ %s %d)", la, j)
			}
			narr = "(store " + narr + " " + idx + " " + el + ")"
		}
		narr = s.name("apr", "(Array Int "+es+")", narr)
	} else {
		sa := s.name("apa", s.sortOf(rt), s.viewSeq(fe.mem, a.View))
		if b.View.IsStr {
			fe.unsupported("append of string")
			return fe.freshVal("ap", rt)
		}
		sb := s.name("apb", s.seqSort(es), s.viewSeq(fe.mem, b.View))
		arrB := s.seqArr(es, sb)
		arrA := s.seqArr(es, sa)
		narr = s.fresh("apr", "(Array Int "+es+")")
		// total definition (index below la -> a, otherwise b shifted): equal appends give equal arrays
		s.assert(fmt.Sprintf("(forall ((k Int)) (! (= (select %s k) (ite (< k %s) (select %s k) (select %s (- k %s)))) :pattern ((select %s k))))",
			narr, la, arrA, arrB, la, narr))
	}
	nlt := "(+ " + la + " " + lb + ")"
	if okA && okB {
		nlt = numInt(new(big.Int).Add(ca, cb))
	}
	nl := s.name("apl", "Int", nlt)
	v := fe.wrapTerm(s.mkSeq(es, nl, narr), rt)
	v.View.Len = nl
	v.View.NilFlag = ""
	if a.View.NilFlag == "false" {
		v.View.NilFlag = "false"
	}
	return v
}

func (fe *FnEnc) copyBuiltin(args []Val, rt types.Type) Val {
	s := fe.s
	dst, src := args[0], args[1]
	if dst.View == nil || src.View == nil || src.View.IsStr {
		fe.unsupported("copy with non-view operands")
		fe.havocReachable(dst)
		return fe.freshVal("cp", rt)
	}
	es := s.sortOf(dst.View.Elem)
	n := s.name("cpn", "Int", "(ite (<= "+dst.View.Len+" "+src.View.Len+") "+dst.View.Len+" "+src.View.Len+")")
	ssrc := s.name("cps", s.seqSort(es), s.viewSeq(fe.mem, src.View))
	base := s.load(fe.mem, dst.View.Origin)
	var arr string
	var dstArrT *types.Array
	if dst.View.IsArray {
		dstArrT = types.Unalias(dst.View.Origin.elemType()).Underlying().(*types.Array)
		arr = s.arrToSMT(dstArrT, base)
	} else {
		arr = s.seqArr(es, base)
	}
	narr := s.fresh("cpa", "(Array Int "+es+")")
	off := dst.View.Off
	s.assert(fmt.Sprintf("(forall ((k Int)) (! (= (select %s k) (ite (and (<= %s k) (< k (+ %s %s))) (select %s (- k %s)) (select %s k))) :pattern ((select %s k))))",
		narr, off, off, n, s.seqArr(es, ssrc), off, arr, narr))
	var nv string
	if dst.View.IsArray {
		nv = s.arrFromSMT(dstArrT, narr)
	} else {
		nv = s.mkSeq(es, s.seqLen(es, base), narr)
	}
	fe.recordMod(s.store(fe.mem, dst.View.Origin, nv))
	return Val{T: rt, Term: n}
}

// ---------------------------------------------------------------- contracts at call sites

func (fe *FnEnc) bindNames(ct *Contract, hasRecv bool, args []Val) map[string]Val {
	env := map[string]Val{}
	i := 0
	if hasRecv && len(args) > 0 {
		if ct.RecvName != "" {
			env[ct.RecvName] = args[0]
		}
		i = 1
	}
	for j, n := range ct.Params {
		if i+j < len(args) && n != "_" {
			env[n] = args[i+j]
		}
	}
	return env
}

func (fe *FnEnc) useContract(ct *Contract, args []Val, rt types.Type, pos token.Pos, key string) Val {
	return fe.useContractFn(ct, nil, args, rt, pos, key)
}

func (fe *FnEnc) useContractFn(ct *Contract, callee *ssa.Function, args []Val, rt types.Type, pos token.Pos, key string) Val {
	s := fe.s
	top := fe.top
	hasRecv := ct.Recv != ""
	env := fe.bindNames(ct, hasRecv, args)
	pre := fe.mem
	ev := fe.newEval(pre, pre, env)
	ev.calleePkg = ct.PkgPath
	top.sites["call:"+ct.Name]++
	site := fmt.Sprintf("%s@%d", ct.Name, top.sites["call:"+ct.Name])
	if fe.sitePrefix != "" {
		site = fe.sitePrefix + "." + site
	}
	// opt weakcalls (thin contracts): a callee's precondition is not checked; its postcondition is then
	// only assumed for calls where the precondition holds (otherwise the call just havocs its frame)
	weak := top.ct != nil && top.ct.Opts["weakcalls"] != ""
	var weakPre []string
	for i, r := range ct.Requires {
		lab := r.Label
		if lab == "" {
			lab = fmt.Sprint(i + 1)
		}
		if weak {
			weakPre = append(weakPre, ev.evalTerm(r.E))
			continue
		}
		fe.check("call.pre", site+"."+lab, ev.evalBool(r.E), ct.Name+" requires "+r.Src, pos)
	}
	// recursion: the callee's measure is lexicographically below the caller's
	if len(ct.DecrList) > 0 && top.ct != nil && len(top.ct.DecrList) > 0 {
		evTop := top.newEval(top.entryMem, top.entryMem, top.paramVals)
		var cal, cur []string
		for _, d := range ct.DecrList {
			cal = append(cal, ev.evalTerm(d.E))
		}
		for _, d := range top.ct.DecrList {
			cur = append(cur, evTop.evalTerm(d.E))
		}
		n := len(cal)
		if len(cur) < n {
			n = len(cur)
		}
		// lexicographic <
		less := "false"
		for i := n - 1; i >= 0; i-- {
			less = "(or (< " + cal[i] + " " + cur[i] + ") (and (= " + cal[i] + " " + cur[i] + ") " + less + "))"
		}
		nonneg := []string{}
		for _, c := range cal {
			nonneg = append(nonneg, "(<= 0 "+c+")")
		}
		fe.check("call.decreases", site, and(less, and(nonneg...)), "measure of "+ct.Name+" decreases (termination)", pos)
	}
	// a callee that writes, invoked on state guarded by the receiver's mutex, needs the exclusive lock
	if len(ct.Assigns) > 0 {
		fe.calleeWritesCheck(ct, pos)
	}
	// havoc assigns
	fe.mem = pre.clone()
	// "opt section=<mutex field>": the callee opens (and closes) one critical section on its receiver's mutex
	if mu := ct.Opts["section"]; mu != "" && hasRecv && len(args) > 0 && args[0].T != nil {
		rt0 := args[0].T
		if p, ok := rt0.Underlying().(*types.Pointer); ok {
			rt0 = p.Elem()
		}
		if args[0].Term != "" {
			fe.bumpSections(mangle(types.TypeString(rt0, nil))+"_"+mu, args[0].Term)
		}
	}
	fe.curArgs = args
	for _, as := range ct.Assigns {
		fe.havocLvalue(ev, as)
	}
	fe.curArgs = nil
	// closures handed to the callee may be invoked any number of times: the captured variables they
	// assign are havocked; a closure body with effects this analysis cannot bound havocs everything
	cloArg := false
	for _, a := range args {
		if a.Clo != nil {
			cloArg = true
			fe.closureArgEffects(a.Clo, ct.Name)
		}
	}
	// allocation watermarks may grow (unless the callee is declared allocation-free)
	noalloc := ct.Opts["noalloc"] != "" && !cloArg
	var may map[string]bool
	if callee != nil && !ct.Trusted {
		may = fe.g.mayAlloc(callee)
	}
	canAlloc := func(nextKey string) bool {
		if may == nil || may["*"] {
			return true
		}
		return may[strings.TrimPrefix(nextKey, "next_")]
	}
	for _, k := range sortedKeys(fe.mem.ghost) {
		if noalloc {
			break
		}
		if strings.HasPrefix(k, "next_") && !canAlloc(k) {
			continue
		}
		if strings.HasPrefix(k, "next_") {
			n := s.fresh("nx", "Int")
			s.assert("(>= " + n + " " + fe.mem.ghost[k] + ")")
			fe.mem.ghost[k] = n
		}
	}
	for _, k := range sortedKeys(s.funSeen) {
		if noalloc {
			break
		}
		if strings.HasPrefix(k, "G0_next_") {
			gk := strings.TrimPrefix(k, "G0_")
			if !canAlloc(gk) {
				continue
			}
			if _, ok := fe.mem.ghost[gk]; !ok {
				n := s.fresh("nx", "Int")
				s.assert("(>= " + n + " " + k + ")")
				fe.mem.ghost[gk] = n
				fe.recordMod([]string{"ghost:" + gk})
			}
		}
	}
	// results
	var res Val
	var resVals []Val
	if rt != nil {
		if tup, ok := rt.(*types.Tuple); ok {
			for i := 0; i < tup.Len(); i++ {
				resVals = append(resVals, fe.freshVal("r_"+ct.Name, tup.At(i).Type()))
			}
			res = Val{T: rt, Tup: resVals}
		} else if fn := ct.Opts["returns_contract"]; fn != "" {
			// the result is a function value whose calls follow the named contract (e.g. an iterator's next)
			res = Val{T: rt, Fn: contractFn{key: ct.PkgPath + "." + fn, id: s.fresh("fnid", "Int")}}
			resVals = []Val{res}
		} else if fn := ct.Opts["returns_fn"]; fn != "" {
			// the result is a function value that computes the named spec function (e.g. a hasher)
			res = Val{T: rt, Fn: specFn{name: fn, pkg: ct.PkgPath}}
			resVals = []Val{res}
		} else {
			res = fe.freshVal("r_"+ct.Name, rt)
			resVals = []Val{res}
		}
	}
	for i, n := range ct.Results {
		if i < len(resVals) {
			env[n] = resVals[i]
		}
	}
	if len(resVals) == 1 {
		env["result"] = resVals[0]
	}
	ev2 := fe.newEval(fe.mem, pre, env)
	ev2.calleePkg = ct.PkgPath
	for _, e := range append(append([]Clause{}, ct.Ensures...), ct.Names...) {
		t := ev2.evalAssume(e.E)
		if len(weakPre) > 0 {
			t = implies(and(weakPre...), t)
		}
		s.assert(implies(fe.guard, t))
	}
	if len(ct.Names) > 0 {
		fe.top.havocked["assumed: the verdict of "+ct.Name+" is a function of the inputs named in its contract (names clause)"] = true
	}
	fe.afterCall(ct.Name, res, pos)
	if ct.Trusted {
		top.havocked["trusted contract: "+key] = true
	}
	return res
}

// havocLvalue havocs the location(s) denoted by an assigns clause.
func (fe *FnEnc) havocLvalue(ev *Eval, cl Clause) {
	s := fe.s
	if n, ok := cl.E.(*EName); ok && n.Name == "anything" {
		// assigns anything: every heap object and every slice/map the caller passes may change; ghost state may not
		fe.havocAll("assigns anything")
		for _, a := range fe.curArgs {
			if a.View != nil || a.Map != nil || (a.Addr != nil && a.Addr.Root != rootHeap) {
				fe.havocReachable(a) // heap objects are covered by havocAll already
			}
		}
		return
	}
	switch x := cl.E.(type) {
	case *ECall:
		if x.Fn == "ghost" {
			for _, a := range x.Args {
				if n, ok := a.(*EName); ok {
					fe.mem.ghost[n.Name] = s.fresh("hg", fe.s.ghostSortOf(n.Name))
					fe.recordMod([]string{"ghost:" + n.Name})
				}
			}
			return
		}
		if x.Fn == "heap" {
			// heap(T.f): the field f of every object of struct type T
			for _, a := range x.Args {
				if sel, ok := a.(*ESel); ok {
					if tn, ok := sel.X.(*EName); ok {
						if t := ev.lookupType(tn.Name); t != nil {
							if st, ok := structOf(t); ok {
								sn := s.sortOf(t)
								for i := 0; i < st.NumFields(); i++ {
									if st.Field(i).Name() == sel.F {
										k := s.heapKeyField(sn, st, i)
										fe.havocKeys(map[string]bool{k: true})
										fe.recordMod([]string{k})
									}
								}
							}
						}
					}
				}
			}
			return
		}
	}
	v := ev.eval(cl.E)
	switch {
	case v.View != nil:
		fe.havocReachable(v)
	case v.Map != nil:
		fe.havocReachable(v)
	case v.Addr != nil:
		// whole location
		t := v.Addr.elemType()
		nv := s.fresh("ha", s.sortOf(t))
		s.assumeRange(t, nv)
		fe.recordMod(s.store(fe.mem, v.Addr, nv))
	case v.lval != nil:
		t := v.lval.elemType()
		nv := s.fresh("ha", s.sortOf(t))
		s.assumeRange(t, nv)
		fe.recordMod(s.store(fe.mem, v.lval, nv))
	default:
		fe.unsupported("assigns clause %q does not denote a location", cl.Src)
	}
}

func (fe *FnEnc) calleeWritesCheck(ct *Contract, pos token.Pos) {
	top := fe.top
	recv := top.fn.Signature.Recv()
	if recv == nil || len(top.fn.Params) == 0 {
		return
	}
	rt := recv.Type()
	if p, ok := rt.(*types.Pointer); ok {
		rt = p.Elem()
	}
	gd := fe.g.guardFor(rt)
	if gd == nil || gd.Mutex == "none" {
		return
	}
	// only abstract (ghost) state of guarded sub-objects is tracked: any ghost assigns counts as a write
	writes := false
	for _, a := range ct.Assigns {
		if c, ok := a.E.(*ECall); ok && c.Fn == "ghost" {
			writes = true
		}
	}
	if !writes {
		return
	}
	rv := top.vals[top.fn.Params[0]]
	gk := "lock_" + mangle(types.TypeString(rt, nil)) + "_" + gd.Mutex
	fe.g.ghostSorts[gk] = "(Array Int Int)"
	cur := fe.s.ghostGet(fe.mem, gk, "(Array Int Int)")
	top.sites["lock:callee-writes"]++
	fe.check("lock:callee-writes", fmt.Sprintf("@%d.%s", top.sites["lock:callee-writes"], ct.Name), "(= (select "+cur+" "+rv.Term+") 2)",
		"call of "+ct.Name+" (which mutates guarded state) with the exclusive lock held", pos)
}

// noopFn is a function value whose call has no effect on modelled state (context cancel functions).
type noopFn struct{}

// contractFn is a function value whose calls follow a named contract; id identifies the value (fnid(x) in contracts).
type contractFn struct{ key, id string }

// specFn is a function value that computes a spec-level (uninterpreted or defined) function of its arguments.
type specFn struct{ name, pkg string }
