package main

// Contract files: comment-only Go files (//go:build verif) inside /repo
// packages, named zz_verif_contracts*.go, and shared spec files
// /verif/spec/*.gvc.  Every directive line starts with "//@".

import (
	"fmt"
	"os"
	"path/filepath"
	"regexp"
	"sort"
	"strconv"
	"strings"
)

type Clause struct {
	Label string
	E     Expr
	Src   string
	Props []string // properties this clause serves (inherits contract's if empty)
	Line  int
}

type Immutable struct {
	Type   string
	Pkg    string
	Except []string
}

type AfterClause struct {
	Callee string
	K      int
	Clause
}

type LoopSpec struct {
	K          int
	Invariants []Clause
	Decreases  *Clause
	Hints      []Clause // extra facts assumed at loop head after being proved as lemma instances
	Unroll     int
}

type Contract struct {
	PkgPath    string
	Recv       string // receiver type name ("" for plain functions)
	Name       string
	RecvName   string
	Params     []string
	Results    []string
	Props      []string
	Mode       string // "int" | "bv"
	Requires   []Clause
	Ensures    []Clause
	Assigns    []Clause
	HasAssign  bool
	Loops      map[int]*LoopSpec
	PanicsIf   *Clause
	Decreases  *Clause
	DecrList   []Clause // lexicographic measure for recursive functions
	Trusted    bool     // assumed, never verified (external / interface)
	NoVerify   bool
	Panics     string // "checked" (default) | "off"
	NoOverflow bool
	Opts       map[string]string
	File       string
	Line       int
	Covers     []Clause // cover: must be satisfiable at some return
	Names      []Clause // names: verdict-naming equalities assumed by callers only
	Afters     []AfterClause
	Uses       []string // lemma names assumed at entry
	Ghost      bool
}

func (c *Contract) Key() string {
	if c.Recv != "" {
		return c.PkgPath + "." + c.Recv + "." + c.Name
	}
	return c.PkgPath + "." + c.Name
}

type UFun struct {
	Name    string
	Args    []string
	Ret     string
	PkgPath string
}

type Define struct {
	Name    string
	Params  []string
	Sorts   []string
	Ret     string
	Body    Expr
	Src     string
	PkgPath string
	Rec     bool
}

type Axiom struct {
	Name    string
	E       Expr
	Src     string
	PkgPath string
	Lemma   bool // proved as an obligation before being assumed
	Props   []string
	Uses    []string
	Manual  bool   // only available where named by "use=" / "uses" (definitions too heavy to hand out everywhere)
	Induct  string // lemma proved by induction on this (integer, >= 0) quantified variable
	File    string
	Line    int
}

type SpecDB struct {
	Contracts  map[string]*Contract
	UFuns      map[string]*UFun
	Defines    map[string]*Define
	Axioms     []*Axiom
	Order      []string // declaration order of ufun/define names
	Files      []string
	SortAlias  map[string][2]string   // name -> (Go type expression, package path)
	SortDecls  map[string][][2]string // every declaration of each alias (clash check after loading)
	Ghosts     map[string][2]string   // ghost variable -> (sort name, package path)
	GhostVia   map[string]string      // ghost variable -> Go type whose holders may change it
	Immutables []Immutable
	Guards     []*Guard
	FieldFns   map[string]string // <pkg path>.<Struct>.<field> -> spec function computed by calls of that function-typed field
}

// Guard: the fields of a struct that may only be accessed while its mutex is held.
type Guard struct {
	PkgPath string
	Struct  string
	Mutex   string
	Fields  map[string]bool
}

func NewSpecDB() *SpecDB {
	return &SpecDB{Contracts: map[string]*Contract{}, UFuns: map[string]*UFun{}, Defines: map[string]*Define{}, SortAlias: map[string][2]string{}, SortDecls: map[string][][2]string{}, Ghosts: map[string][2]string{}, GhostVia: map[string]string{}, FieldFns: map[string]string{}}
}

var (
	reFuncHdr = regexp.MustCompile(`^func\s+(?:\(\s*(\w+)\s+\*?([\w.]+)\s*\)\s*)?(\w+)\s*\(([^)]*)\)\s*(?:\(([^)]*)\)|(\w+))?\s*$`)
	reUFun    = regexp.MustCompile(`^ufun\s+(\w+)\s*\(([^)]*)\)\s*(.+)$`)
	reDefine  = regexp.MustCompile(`^(define|defrec)\s+(\w+)\s*\(([^)]*)\)\s*([^=]+?)\s*=\s*(.+)$`)
	reAxiom   = regexp.MustCompile(`^(axiom|lemma)\s+(\w+)\s*(?:\[([^\]]*)\])?\s*:\s*(.+)$`)
	reLabel   = regexp.MustCompile(`^(\w[\w.@-]*)\s*:\s+(.*)$`)
)

func splitNames(s string) []string {
	var out []string
	for _, p := range strings.Split(s, ",") {
		p = strings.TrimSpace(p)
		if p != "" {
			out = append(out, p)
		}
	}
	return out
}

// LoadContractFile parses one contract file. defaultPkg is the import path
// of the package the file sits in ("" for .gvc files, which use "pkg").
func (db *SpecDB) LoadContractFile(path, defaultPkg string) error {
	data, err := os.ReadFile(path)
	if err != nil {
		return err
	}
	db.Files = append(db.Files, path)
	pkg := defaultPkg
	var cur *Contract
	var curLoop *LoopSpec
	// join continuation lines
	type ln struct {
		s string
		n int
	}
	var lines []ln
	for i, raw := range strings.Split(string(data), "\n") {
		t := strings.TrimSpace(raw)
		if !strings.HasPrefix(t, "//@") {
			continue
		}
		t = strings.TrimSpace(t[3:])
		if t == "" || strings.HasPrefix(t, "#") {
			continue
		}
		if strings.HasPrefix(t, "...") && len(lines) > 0 {
			lines[len(lines)-1].s += " " + strings.TrimSpace(t[3:])
			continue
		}
		lines = append(lines, ln{t, i + 1})
	}
	fail := func(n int, f string, a ...interface{}) error {
		return fmt.Errorf("%s:%d: %s", path, n, fmt.Sprintf(f, a...))
	}
	parseClause := func(n int, rest string, allowLabel bool) (Clause, error) {
		cl := Clause{Src: rest, Line: n}
		if allowLabel {
			if m := reLabel.FindStringSubmatch(rest); m != nil && !strings.HasPrefix(m[2], ":") {
				cl.Label = m[1]
				rest = m[2]
				cl.Src = rest
				// "label@C17: ..." restricts the clause to that property (a function may serve several)
				if at := strings.Index(cl.Label, "@"); at >= 0 {
					cl.Props = strings.Split(cl.Label[at+1:], "@")
					cl.Label = cl.Label[:at]
				}
			}
		}
		e, err := ParseExpr(rest)
		if err != nil {
			return cl, fail(n, "%v", err)
		}
		cl.E = e
		return cl, nil
	}
	for _, l := range lines {
		kw := l.s
		rest := ""
		if i := strings.IndexAny(l.s, " \t"); i >= 0 {
			kw, rest = l.s[:i], strings.TrimSpace(l.s[i+1:])
		}
		switch kw {
		case "pkg":
			pkg = rest
			cur = nil
		case "ghost":
			f := strings.Fields(rest)
			if len(f) == 4 && f[2] == "via" {
				// ghost <name> <sort> via <Go type>: a call without contract that is handed a value of that
				// type may change the ghost (e.g. a context.Context can be polled by whoever receives it)
				db.GhostVia[f[0]] = f[3]
				f = f[:2]
			}
			if len(f) != 2 {
				return fail(l.n, "bad ghost declaration %q", rest)
			}
			db.Ghosts[f[0]] = [2]string{f[1], pkg}
			cur = nil
		case "fieldfn":
			// fieldfn <Struct>.<field> = <ufun>: a call through the function-typed field computes the named
			// uninterpreted function of (pointer to the struct, arguments) and has no effect (assumption, recorded)
			f := strings.Fields(rest)
			if len(f) != 3 || f[1] != "=" {
				return fail(l.n, "bad fieldfn declaration %q", rest)
			}
			db.FieldFns[pkg+"."+f[0]] = f[2]
			cur = nil
		case "immutable":
			// immutable <Struct> except <pkg-path-prefix>...: no function outside the excepted packages stores
			// into (or leaks the address of) a field of the struct; checked syntactically over the whole
			// repository on every run; havocs then leave objects of that type alone
			f := strings.Fields(rest)
			if len(f) < 1 {
				return fail(l.n, "bad immutable declaration")
			}
			im := Immutable{Type: f[0], Pkg: pkg}
			for i := 1; i < len(f); i++ {
				if f[i] != "except" {
					im.Except = append(im.Except, f[i])
				}
			}
			db.Immutables = append(db.Immutables, im)
			cur = nil
		case "guarded":
			// guarded <Struct> <mutexField>: f1 f2 ...
			kv := strings.SplitN(rest, ":", 2)
			f := strings.Fields(kv[0])
			if len(kv) != 2 || len(f) != 2 {
				return fail(l.n, "bad guarded declaration %q", rest)
			}
			gd := &Guard{PkgPath: pkg, Struct: f[0], Mutex: f[1], Fields: map[string]bool{}}
			for _, x := range strings.Fields(kv[1]) {
				gd.Fields[x] = true
			}
			db.Guards = append(db.Guards, gd)
			cur = nil
		case "sort":
			kv := strings.SplitN(rest, "=", 2)
			if len(kv) != 2 {
				return fail(l.n, "bad sort alias %q", rest)
			}
			db.SortAlias[strings.TrimSpace(kv[0])] = [2]string{strings.TrimSpace(kv[1]), pkg}
			db.SortDecls[strings.TrimSpace(kv[0])] = append(db.SortDecls[strings.TrimSpace(kv[0])], [2]string{strings.TrimSpace(kv[1]), pkg})
			cur = nil
		case "func":
			m := reFuncHdr.FindStringSubmatch(l.s)
			if m == nil {
				return fail(l.n, "bad func header %q", l.s)
			}
			cur = &Contract{PkgPath: pkg, RecvName: m[1], Recv: m[2], Name: m[3], Params: splitNames(m[4]),
				Loops: map[int]*LoopSpec{}, Mode: "int", Panics: "checked", Opts: map[string]string{}, File: path, Line: l.n}
			if m[5] != "" {
				cur.Results = splitNames(m[5])
			} else if m[6] != "" {
				cur.Results = []string{m[6]}
			}
			curLoop = nil
			if _, dup := db.Contracts[cur.Key()]; dup {
				return fail(l.n, "duplicate contract for %s", cur.Key())
			}
			db.Contracts[cur.Key()] = cur
		case "ufun":
			m := reUFun.FindStringSubmatch(l.s)
			if m == nil {
				return fail(l.n, "bad ufun %q", l.s)
			}
			if prev := db.UFuns[m[1]]; prev != nil && (strings.Join(prev.Args, ",") != strings.Join(splitNames(m[2]), ",") || prev.Ret != strings.TrimSpace(m[3])) {
				return fail(l.n, "spec function %s is declared twice with different signatures (names are global)", m[1])
			}
			if _, isDef := db.Defines[m[1]]; isDef {
				return fail(l.n, "spec function %s is declared both as ufun and as define (names are global)", m[1])
			}
			db.UFuns[m[1]] = &UFun{Name: m[1], Args: splitNames(m[2]), Ret: strings.TrimSpace(m[3]), PkgPath: pkg}
			db.Order = append(db.Order, m[1])
			cur = nil
		case "define", "defrec":
			m := reDefine.FindStringSubmatch(l.s)
			if m == nil {
				return fail(l.n, "bad define %q", l.s)
			}
			d := &Define{Name: m[2], Ret: strings.TrimSpace(m[4]), Src: m[5], PkgPath: pkg, Rec: m[1] == "defrec"}
			for _, p := range splitNames(m[3]) {
				f := strings.Fields(p)
				if len(f) == 1 {
					d.Params = append(d.Params, f[0])
					d.Sorts = append(d.Sorts, "int")
				} else {
					d.Params = append(d.Params, f[0])
					d.Sorts = append(d.Sorts, strings.Join(f[1:], " "))
				}
			}
			e, err := ParseExpr(m[5])
			if err != nil {
				return fail(l.n, "%v", err)
			}
			d.Body = e
			if _, isU := db.UFuns[d.Name]; isU {
				return fail(l.n, "spec function %s is declared both as ufun and as define (names are global)", d.Name)
			}
			if prev := db.Defines[d.Name]; prev != nil && prev.Src != d.Src {
				return fail(l.n, "spec function %s is defined twice with different bodies (names are global)", d.Name)
			}
			db.Defines[d.Name] = d
			db.Order = append(db.Order, d.Name)
			cur = nil
		case "axiom", "lemma":
			m := reAxiom.FindStringSubmatch(l.s)
			if m == nil {
				return fail(l.n, "bad %s %q", kw, l.s)
			}
			e, err := ParseExpr(m[4])
			if err != nil {
				return fail(l.n, "%v", err)
			}
			ax := &Axiom{Name: m[2], E: e, Src: m[4], PkgPath: pkg, Lemma: kw == "lemma", File: path, Line: l.n}
			for _, o := range splitNames(m[3]) {
				if strings.HasPrefix(o, "use=") {
					ax.Uses = append(ax.Uses, strings.TrimPrefix(o, "use="))
				} else if o == "manual" {
					ax.Manual = true
				} else if strings.HasPrefix(o, "induct=") {
					ax.Induct = strings.TrimPrefix(o, "induct=")
				} else {
					ax.Props = append(ax.Props, o)
				}
			}
			db.Axioms = append(db.Axioms, ax)
			cur = nil
		default:
			if cur == nil {
				return fail(l.n, "clause %q outside a func contract", kw)
			}
			switch kw {
			case "property":
				cur.Props = append(cur.Props, strings.Fields(strings.ReplaceAll(rest, ",", " "))...)
			case "mode":
				if rest != "int" && rest != "bv" {
					return fail(l.n, "bad mode %q", rest)
				}
				cur.Mode = rest
			case "trusted":
				cur.Trusted = true
			case "panics":
				cur.Panics = rest
			case "nooverflow":
				cur.NoOverflow = true
			case "opt":
				kv := strings.SplitN(rest, "=", 2)
				if len(kv) == 2 {
					cur.Opts[strings.TrimSpace(kv[0])] = strings.TrimSpace(kv[1])
				} else {
					cur.Opts[rest] = "1"
				}
			case "use":
				cur.Uses = append(cur.Uses, splitNames(rest)...)
			case "after":
				// after <Callee>@<k> [label:] <expr>: proved right after the k-th call of Callee in this
				// function (result = the call's result), then available to the rest of the path
				f := strings.SplitN(rest, " ", 2)
				at := strings.SplitN(f[0], "@", 2)
				if len(f) != 2 || len(at) != 2 {
					return fail(l.n, "bad after clause %q", rest)
				}
				k, err := strconv.Atoi(at[1])
				if err != nil {
					return fail(l.n, "bad after clause %q", rest)
				}
				cl, err := parseClause(l.n, f[1], true)
				if err != nil {
					return err
				}
				if cl.Label == "" {
					cl.Label = strconv.Itoa(len(cur.Afters) + 1)
				}
				cur.Afters = append(cur.Afters, AfterClause{Callee: at[0], K: k, Clause: cl})
			case "requires", "ensures", "cover", "names":
				cl, err := parseClause(l.n, rest, true)
				if err != nil {
					return err
				}
				switch kw {
				case "names":
					// names <expr>: gives the function's verdict a name for callers (an uninterpreted predicate
					// of the inputs): assumed at call sites, not an obligation of the function itself. The
					// assumption recorded is that the function is deterministic in the inputs it names.
					cur.Names = append(cur.Names, cl)
				case "requires":
					cur.Requires = append(cur.Requires, cl)
				case "ensures":
					if cl.Label == "" {
						cl.Label = strconv.Itoa(len(cur.Ensures) + 1)
					}
					cur.Ensures = append(cur.Ensures, cl)
				case "cover":
					if cl.Label == "" {
						cl.Label = strconv.Itoa(len(cur.Covers) + 1)
					}
					cur.Covers = append(cur.Covers, cl)
				}
			case "assigns":
				cur.HasAssign = true
				if rest != "nothing" {
					for _, part := range splitTop(rest) {
						cl, err := parseClause(l.n, part, false)
						if err != nil {
							return err
						}
						cur.Assigns = append(cur.Assigns, cl)
					}
				}
			case "panics_if":
				cl, err := parseClause(l.n, rest, false)
				if err != nil {
					return err
				}
				cur.PanicsIf = &cl
			case "loop":
				k, err := strconv.Atoi(strings.Fields(rest)[0])
				if strings.Fields(rest)[0] == "*" {
					k, err = 0, nil // "loop *": clauses that apply to every loop of the function
				}
				if err != nil {
					return fail(l.n, "bad loop ordinal %q", rest)
				}
				curLoop = &LoopSpec{K: k}
				cur.Loops[k] = curLoop
			case "invariant", "hint":
				if curLoop == nil {
					return fail(l.n, "%s outside loop", kw)
				}
				cl, err := parseClause(l.n, rest, true)
				if err != nil {
					return err
				}
				if kw == "hint" {
					curLoop.Hints = append(curLoop.Hints, cl)
				} else {
					if cl.Label == "" {
						cl.Label = strconv.Itoa(len(curLoop.Invariants) + 1)
					}
					curLoop.Invariants = append(curLoop.Invariants, cl)
				}
			case "decreases":
				if curLoop == nil {
					for _, part := range splitTop(rest) {
						cl, err := parseClause(l.n, part, false)
						if err != nil {
							return err
						}
						cur.DecrList = append(cur.DecrList, cl)
					}
					break
				}
				cl, err := parseClause(l.n, rest, false)
				if err != nil {
					return err
				}
				curLoop.Decreases = &cl
			case "unroll":
				if curLoop == nil {
					return fail(l.n, "unroll outside loop")
				}
				n, err := strconv.Atoi(rest)
				if err != nil {
					return fail(l.n, "bad unroll %q", rest)
				}
				curLoop.Unroll = n
			case "endloop":
				curLoop = nil
			default:
				return fail(l.n, "unknown clause %q", kw)
			}
		}
	}
	return nil
}

// splitTop splits on commas that are not nested in brackets.
func splitTop(s string) []string {
	var out []string
	depth, start := 0, 0
	for i := 0; i < len(s); i++ {
		switch s[i] {
		case '(', '[', '{':
			depth++
		case ')', ']', '}':
			depth--
		case ',':
			if depth == 0 {
				out = append(out, strings.TrimSpace(s[start:i]))
				start = i + 1
			}
		}
	}
	out = append(out, strings.TrimSpace(s[start:]))
	return out
}

// LoadSpecDir loads every *.gvc under dir (sorted).
func (db *SpecDB) LoadSpecDir(dir string) error {
	files, _ := filepath.Glob(filepath.Join(dir, "*.gvc"))
	sort.Strings(files)
	for _, f := range files {
		if err := db.LoadContractFile(f, ""); err != nil {
			return err
		}
	}
	return nil
}
