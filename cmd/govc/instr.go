package main

import (
	"fmt"
	"go/constant"
	"go/token"
	"go/types"
	"hash/fnv"
	"math/big"
	"strings"

	"golang.org/x/tools/go/ssa"
)

func hashStr(s string) uint64 {
	h := fnv.New64a()
	h.Write([]byte(s))
	return h.Sum64()
}

func constBig(c *ssa.Const) (*big.Int, bool) {
	if c.Value == nil {
		return big.NewInt(0), true
	}
	v := constant.ToInt(c.Value)
	if v.Kind() != constant.Int {
		return big.NewInt(0), false
	}
	bi, ok := new(big.Int).SetString(v.ExactString(), 10)
	return bi, ok
}

func (fe *FnEnc) instr(ins ssa.Instruction) {
	s := fe.s
	switch x := ins.(type) {
	case *ssa.DebugRef:
		// "after =name@k": a hint placed where the k-th assignment (in source order) of a local is made
		if own := fe.ownContract(); own != nil && len(own.Afters) > 0 && !x.IsAddr {
			if ord, ok := fe.g.defOrdinals(fe.fn)[x]; ok {
				var res Val
				if v, ok := fe.vals[x.X]; ok {
					res = v
				}
				fe.afterAt(own, ord, res, x.Pos())
			}
		}
	case *ssa.BinOp:
		fe.vals[x] = fe.binop(x)
	case *ssa.UnOp:
		fe.vals[x] = fe.unop(x)
	case *ssa.Convert:
		fe.vals[x] = fe.convert(x)
	case *ssa.ChangeType:
		v := fe.val(x.X)
		v.T = x.Type()
		fe.vals[x] = v
	case *ssa.ChangeInterface:
		v := fe.val(x.X)
		v.T = x.Type()
		fe.vals[x] = v
	case *ssa.MakeInterface:
		fe.vals[x] = fe.makeInterface(x)
	case *ssa.TypeAssert:
		fe.vals[x] = fe.typeAssert(x)
	case *ssa.Alloc:
		fe.vals[x] = fe.alloc(x)
	case *ssa.Field:
		v := fe.val(x.X)
		st, _ := structOf(v.T)
		t := "(" + fieldAcc(s.sortOf(v.T), st, x.Field) + " " + fe.valTerm(v) + ")"
		ft := st.Field(x.Field).Type()
		fe.vals[x] = fe.wrapTerm(s.name("fv", s.sortOf(ft), t), ft)
	case *ssa.FieldAddr:
		v := fe.val(x.X)
		if len(v.Alts) > 0 {
			fe.panicCheck("nilderef", not(fe.altsNil(v)), x.Pos())
			out := Val{T: x.Type()}
			for _, al := range v.Alts {
				if al.V.Term == "0" && al.V.Addr == nil {
					continue
				}
				a := fe.ptrAddr(al.V)
				na := a.with(Step{Kind: stField, Field: x.Field, T: a.elemType()})
				na.Nil = "false"
				out.Alts = append(out.Alts, AltVal{Cond: al.Cond, V: Val{T: x.Type(), Addr: na}})
			}
			fe.vals[x] = out
			break
		}
		a := fe.ptrAddr(v)
		fe.panicCheck("nilderef", not(a.Nil), x.Pos())
		na := a.with(Step{Kind: stField, Field: x.Field, T: a.elemType()})
		na.Nil = "false"
		fe.vals[x] = Val{T: x.Type(), Addr: na}
	case *ssa.Index:
		fe.vals[x] = fe.index(x)
	case *ssa.IndexAddr:
		fe.vals[x] = fe.indexAddr(x)
	case *ssa.Slice:
		fe.vals[x] = fe.slice(x)
	case *ssa.Store:
		fe.storeInstr(x)
	case *ssa.Phi:
		panic("phi in body")
	case *ssa.Extract:
		tv := fe.val(x.Tuple)
		if x.Index < len(tv.Tup) {
			fe.vals[x] = tv.Tup[x.Index]
		} else {
			fe.vals[x] = fe.freshVal("ex", x.Type())
		}
	case *ssa.Call:
		fe.vals[x] = fe.call(x, x.Common(), x.Type())
	case *ssa.Defer:
		fe.defers = append(fe.defers, x)
	case *ssa.RunDefers:
		for i := len(fe.defers) - 1; i >= 0; i-- {
			d := fe.defers[i]
			if !d.Block().Dominates(fe.blockOf) {
				fe.unsupported("conditional defer")
				continue
			}
			fe.call(d, d.Common(), nil)
		}
	case *ssa.Return:
		var vs []Val
		for _, r := range x.Results {
			vs = append(vs, fe.val(r))
		}
		fe.rets = append(fe.rets, retInfo{guard: fe.guard, vals: vs, mem: fe.mem})
	case *ssa.If, *ssa.Jump:
	case *ssa.Panic:
		fe.explicitPanic(x)
	case *ssa.MakeSlice:
		fe.vals[x] = fe.makeSlice(x)
	case *ssa.MakeMap:
		t := x.Type()
		mt := t.Underlying().(*types.Map)
		ks, vs := s.sortOf(mt.Key()), s.sortOf(mt.Elem())
		z := s.mkMap(ks, vs, "false", "((as const (Array "+ks+" Bool)) false)", "((as const (Array "+ks+" "+vs+")) "+s.zero(mt.Elem())+")", "0")
		fe.vals[x] = fe.wrapTerm(z, t)
	case *ssa.MapUpdate:
		fe.mapUpdate(x)
	case *ssa.Lookup:
		fe.vals[x] = fe.lookup(x)
	case *ssa.MakeClosure:
		var bs []Val
		for _, b := range x.Bindings {
			bs = append(bs, fe.val(b))
		}
		fe.vals[x] = Val{T: x.Type(), Clo: &Closure{Fn: x.Fn.(*ssa.Function), Bindings: bs}}
	case *ssa.Range:
		v := fe.val(x.X)
		fe.vals[x] = Val{T: x.Type(), Tup: []Val{v}} // iterator remembers the collection
		if v.Map != nil {
			// ghost set of keys already produced by this iteration (visited(k) in loop invariants)
			gk, srt := fe.iterKey(x, v.Map)
			fe.mem.ghost[gk] = fe.s.name("it", srt, "((as const "+srt+") false)")
			fe.recordMod([]string{"ghost:" + gk})
		}
	case *ssa.Next:
		fe.vals[x] = fe.next(x)
	case *ssa.SliceToArrayPointer:
		fe.unsupported("slice to array pointer")
		fe.vals[x] = fe.freshVal("s2a", x.Type())
	case *ssa.MultiConvert:
		fe.unsupported("multiconvert")
		fe.vals[x] = fe.freshVal("mc", x.Type())
	case *ssa.Go, *ssa.Send, *ssa.Select:
		fe.unsupported("concurrency instruction %T", ins)
		fe.havocAll("concurrency")
		if v, ok := ins.(ssa.Value); ok {
			fe.vals[v] = fe.freshVal("cc", v.Type())
		}
	default:
		fe.unsupported("instruction %T", ins)
		if v, ok := ins.(ssa.Value); ok {
			fe.vals[v] = fe.freshVal("un", v.Type())
		}
	}
}

// ---------------------------------------------------------------- arithmetic

func (s *Sess) wrap(x string, w int, signed bool) string {
	if signed {
		return fmt.Sprintf("(- (mod (+ %s %s) %s) %s)", x, pow2s(w-1), pow2s(w), pow2s(w-1))
	}
	return fmt.Sprintf("(mod %s %s)", x, pow2s(w))
}

// wrapAddSub wraps the exact sum/difference of two in-range values: the
// result is off by at most one modulus, so an ite replaces mod (friendlier to
// the solvers' linear arithmetic and to E-matching).
func (s *Sess) wrapAddSub(x string, w int, signed bool) string {
	m := pow2s(w)
	if signed {
		h := pow2s(w - 1)
		return fmt.Sprintf("(let ((ws %s)) (ite (>= ws %s) (- ws %s) (ite (< ws (- %s)) (+ ws %s) ws)))", x, h, m, h, m)
	}
	return fmt.Sprintf("(let ((ws %s)) (ite (>= ws %s) (- ws %s) (ite (< ws 0) (+ ws %s) ws)))", x, m, m, m)
}

// foldAdd / foldSub: a + b, a - b as a literal when both are literals (constant indices keep array
// stores and loads free of case splits).
func foldAdd(a, b string) string {
	if ca, ok := isConstTerm(a); ok {
		if cb, ok := isConstTerm(b); ok {
			return numInt(new(big.Int).Add(ca, cb))
		}
	}
	if b == "0" {
		return a
	}
	if a == "0" {
		return b
	}
	return "(+ " + a + " " + b + ")"
}

func foldSub(a, b string) string {
	if ca, ok := isConstTerm(a); ok {
		if cb, ok := isConstTerm(b); ok {
			return numInt(new(big.Int).Sub(ca, cb))
		}
	}
	if b == "0" {
		return a
	}
	return "(- " + a + " " + b + ")"
}

func (s *Sess) nameUnlessConst(prefix, t string) string {
	if _, ok := isConstTerm(t); ok {
		return t
	}
	return s.name(prefix, "Int", t)
}

func isConstTerm(t string) (*big.Int, bool) {
	if strings.HasPrefix(t, "(- ") && strings.HasSuffix(t, ")") {
		v, ok := new(big.Int).SetString(t[3:len(t)-1], 10)
		if ok {
			return v.Neg(v), true
		}
		return nil, false
	}
	v, ok := new(big.Int).SetString(t, 10)
	return v, ok
}

func isPow2(v *big.Int) (int, bool) {
	if v.Sign() <= 0 {
		return 0, false
	}
	if new(big.Int).And(v, new(big.Int).Sub(v, big.NewInt(1))).Sign() != 0 {
		return 0, false
	}
	return v.BitLen() - 1, true
}

func (fe *FnEnc) binop(x *ssa.BinOp) Val {
	a, b := fe.val(x.X), fe.val(x.Y)
	t := x.Type()
	r := fe.binopTerm(x.Op, a, b, x.X.Type(), x.Y.Type(), t, x.Pos())
	srt := fe.s.sortOf(t)
	return Val{T: t, Term: fe.s.name("t", srt, r)}
}

func (fe *FnEnc) binopTerm(op token.Token, a, b Val, ta, tb, tr types.Type, pos token.Pos) string {
	s := fe.s
	// pointer / interface comparisons
	switch op {
	case token.EQL, token.NEQ:
		eq := fe.equalVals(a, b, ta)
		if op == token.NEQ {
			return not(eq)
		}
		return eq
	}
	at, bt := fe.valTerm(a), fe.valTerm(b)
	w, signed, isInt := intInfo(ta)
	if !isInt {
		if bb, ok := types.Unalias(ta).Underlying().(*types.Basic); ok && bb.Info()&types.IsString != 0 {
			switch op {
			case token.ADD:
				s.declFun("str_cat", []string{"Str", "Str"}, "Str")
				return "(str_cat " + at + " " + bt + ")"
			case token.LSS, token.LEQ, token.GTR, token.GEQ:
				s.declFun("str_lt", []string{"Str", "Str"}, "Bool")
				switch op {
				case token.LSS:
					return "(str_lt " + at + " " + bt + ")"
				case token.GTR:
					return "(str_lt " + bt + " " + at + ")"
				case token.LEQ:
					return "(not (str_lt " + bt + " " + at + "))"
				default:
					return "(not (str_lt " + at + " " + bt + "))"
				}
			}
		}
		fe.unsupported("binop %s on %v", op, ta)
		return s.fresh("bo", s.sortOf(tr))
	}
	if s.mode == "bv" {
		return fe.binopBV(op, at, bt, w, signed, tb, pos)
	}
	switch op {
	case token.ADD:
		if fe.top.ct != nil && fe.top.ct.NoOverflow {
			// checked (and from here on known) not to wrap: the exact term, no case split
			fe.noOverflow("(+ "+at+" "+bt+")", w, signed, pos)
			return "(+ " + at + " " + bt + ")"
		}
		return s.wrapAddSub("(+ "+at+" "+bt+")", w, signed)
	case token.SUB:
		if fe.top.ct != nil && fe.top.ct.NoOverflow {
			// checked (and from here on known) not to wrap: the exact term, no case split
			fe.noOverflow("(- "+at+" "+bt+")", w, signed, pos)
			return "(- " + at + " " + bt + ")"
		}
		return s.wrapAddSub("(- "+at+" "+bt+")", w, signed)
	case token.MUL:
		if fe.top.ct != nil && fe.top.ct.NoOverflow {
			fe.noOverflow("(* "+at+" "+bt+")", w, signed, pos)
			return "(* " + at + " " + bt + ")"
		}
		if fe.top.ct != nil && fe.top.ct.Opts["mul"] == "opaque" && !signed && w == 64 {
			if _, ca := isConstTerm(at); !ca {
				if _, cb := isConstTerm(bt); !cb {
					// opt mul=opaque: a product of two symbolic uint64 values is mul64(a, b), the prelude's
					// uninterpreted function (definition and range are its [manual] axioms; the range is asserted
					// here): contracts that state the same products need no nonlinear reasoning
					s.declFun("u_mul64", []string{"Int", "Int"}, "Int")
					s.usedSpec["mul64"] = true
					t := "(u_mul64 " + at + " " + bt + ")"
					s.assert("(and (<= 0 " + t + ") (< " + t + " " + pow2s(64) + "))")
					return t
				}
			}
		}
		return s.wrap("(* "+at+" "+bt+")", w, signed)
	case token.QUO:
		fe.panicCheck("div0", "(not (= "+bt+" 0))", pos)
		if signed {
			return s.wrap("(tdiv "+at+" "+bt+")", w, signed)
		}
		return "(div " + at + " " + bt + ")"
	case token.REM:
		fe.panicCheck("div0", "(not (= "+bt+" 0))", pos)
		if signed {
			return "(tmod " + at + " " + bt + ")"
		}
		return "(mod " + at + " " + bt + ")"
	case token.LSS:
		return "(< " + at + " " + bt + ")"
	case token.LEQ:
		return "(<= " + at + " " + bt + ")"
	case token.GTR:
		return "(> " + at + " " + bt + ")"
	case token.GEQ:
		return "(>= " + at + " " + bt + ")"
	case token.SHL, token.SHR:
		if _, bs, _ := intInfo(tb); bs {
			fe.panicCheck("negshift", "(>= "+bt+" 0)", pos)
		}
		if c, ok := isConstTerm(bt); ok {
			k := int(c.Int64())
			if k >= w || !c.IsInt64() {
				if op == token.SHR && signed {
					return "(ite (< " + at + " 0) (- 1) 0)"
				}
				return "0"
			}
			if op == token.SHL {
				return s.wrap("(* "+at+" "+pow2s(k)+")", w, signed)
			}
			return "(div " + at + " " + pow2s(k) + ")" // floor division == arithmetic shift for signed too
		}
		// variable shift: exact ite chain
		res := "0"
		if op == token.SHR && signed {
			res = "(ite (< " + at + " 0) (- 1) 0)"
		}
		for k := w - 1; k >= 0; k-- {
			var e string
			if op == token.SHL {
				e = s.wrap("(* "+at+" "+pow2s(k)+")", w, signed)
			} else {
				e = "(div " + at + " " + pow2s(k) + ")"
			}
			res = fmt.Sprintf("(ite (= %s %d) %s %s)", bt, k, e, res)
		}
		return res
	case token.AND, token.OR, token.XOR, token.AND_NOT:
		return fe.bitop(op, at, bt, w, signed)
	}
	fe.unsupported("binop %s", op)
	return s.fresh("bo", s.sortOf(tr))
}

func (fe *FnEnc) noOverflow(exact string, w int, signed bool, pos token.Pos) {
	top := fe.top
	top.sites["nooverflow"]++
	var cond string
	if signed {
		cond = fmt.Sprintf("(and (<= (- %s) %s) (< %s %s))", pow2s(w-1), exact, exact, pow2s(w-1))
	} else {
		cond = fmt.Sprintf("(and (<= 0 %s) (< %s %s))", exact, exact, pow2s(w))
	}
	fe.check("nooverflow", fmt.Sprintf("@%d", top.sites["nooverflow"]), cond, "no wrap-around", pos)
}

// bitop encodes & | ^ &^ in int mode.
func (fe *FnEnc) bitop(op token.Token, at, bt string, w int, signed bool) string {
	s := fe.s
	if signed {
		fe.unsupported("bit operation on signed integer")
		return s.fresh("bit", "Int")
	}
	ca, aConst := isConstTerm(at)
	cb, bConst := isConstTerm(bt)
	if aConst && !bConst && op != token.AND_NOT {
		at, bt, ca, cb, aConst, bConst = bt, at, cb, ca, bConst, aConst
	}
	if bConst {
		switch op {
		case token.AND:
			if cb.Sign() == 0 {
				return "0"
			}
			// mask 2^k - 1
			if k, ok := isPow2(new(big.Int).Add(cb, big.NewInt(1))); ok {
				if k >= w {
					return at
				}
				return "(mod " + at + " " + pow2s(k) + ")"
			}
			// single bit 2^k
			if k, ok := isPow2(cb); ok {
				return fmt.Sprintf("(* %s (mod (div %s %s) 2))", pow2s(k), at, pow2s(k))
			}
			// contiguous mask ((2^n - 1) << k)
		case token.OR:
			if cb.Sign() == 0 {
				return at
			}
			if k, ok := isPow2(cb); ok {
				return fmt.Sprintf("(+ %s (* %s (- 1 (mod (div %s %s) 2))))", at, pow2s(k), at, pow2s(k))
			}
		case token.XOR:
			if cb.Sign() == 0 {
				return at
			}
			if k, ok := isPow2(cb); ok {
				return fmt.Sprintf("(+ %s (* %s (- 1 (* 2 (mod (div %s %s) 2)))))", at, pow2s(k), at, pow2s(k))
			}
			if new(big.Int).Add(cb, big.NewInt(1)).Cmp(pow2(w)) == 0 { // ^ all-ones = not
				return "(- " + cb.String() + " " + at + ")"
			}
		case token.AND_NOT:
			if cb.Sign() == 0 {
				return at
			}
			if k, ok := isPow2(cb); ok {
				return fmt.Sprintf("(- %s (* %s (mod (div %s %s) 2)))", at, pow2s(k), at, pow2s(k))
			}
		}
	}
	if w <= 8 && op == token.OR && !aConst && !bConst {
		// 8-bit or of two non-constant values: a function symbol with its exact definition (bit decomposition, unfolded
		// by pattern) and the idempotence law (a theorem of that definition, spelled out because proving it through
		// eight div/mod digits is slow): (a | b) | b == a | b
		fn := "bor8"
		if !s.funSeen[fn] {
			s.declFun(fn, []string{"Int", "Int"}, "Int")
			var parts []string
			for i := 0; i < 8; i++ {
				parts = append(parts, fmt.Sprintf("(* %s (ite (or (= (mod (div a %s) 2) 1) (= (mod (div b %s) 2) 1)) 1 0))", pow2s(i), pow2s(i), pow2s(i)))
			}
			// "opt bor8=laws": only the laws below, not the digit-by-digit definition (which floods the solver with
			// div/mod terms where the argument needs none of them)
			if fe.top.ct == nil || fe.top.ct.Opts["bor8"] != "laws" {
				s.axioms = append(s.axioms, "(assert (forall ((a Int) (b Int)) (! (= (bor8 a b) (+ "+strings.Join(parts, " ")+")) :pattern ((bor8 a b)))))")
			}
			s.axioms = append(s.axioms, "(assert (forall ((a Int) (b Int)) (! (= (bor8 (bor8 a b) b) (bor8 a b)) :pattern ((bor8 (bor8 a b) b)))))")
			s.axioms = append(s.axioms, "(assert (forall ((a Int) (b Int)) (! (=> (and (<= 0 a) (< a 256) (<= 0 b) (< b 256)) (and (<= 0 (bor8 a b)) (< (bor8 a b) 256))) :pattern ((bor8 a b)))))")
			s.axioms = append(s.axioms, "(assert (forall ((a Int)) (! (=> (and (<= 0 a) (< a 256)) (= (bor8 a 0) a)) :pattern ((bor8 a 0)))))")
		}
		return "(bor8 " + at + " " + bt + ")"
	}
	if w <= 8 {
		// exact bit decomposition
		var parts []string
		for i := 0; i < w; i++ {
			ba := fmt.Sprintf("(mod (div %s %s) 2)", at, pow2s(i))
			bb := fmt.Sprintf("(mod (div %s %s) 2)", bt, pow2s(i))
			var bit string
			switch op {
			case token.AND:
				bit = "(ite (and (= " + ba + " 1) (= " + bb + " 1)) 1 0)"
			case token.OR:
				bit = "(ite (or (= " + ba + " 1) (= " + bb + " 1)) 1 0)"
			case token.XOR:
				bit = "(ite (= " + ba + " " + bb + ") 0 1)"
			case token.AND_NOT:
				bit = "(ite (and (= " + ba + " 1) (= " + bb + " 0)) 1 0)"
			}
			parts = append(parts, "(* "+pow2s(i)+" "+bit+")")
		}
		return "(+ " + strings.Join(parts, " ") + ")"
	}
	// wide, non-constant: uninterpreted with sound bounds
	name := map[token.Token]string{token.AND: "bvand", token.OR: "bvor", token.XOR: "bvxor", token.AND_NOT: "bvandnot"}[op]
	fn := fmt.Sprintf("%s%d", name, w)
	if !s.funSeen[fn] {
		s.declFun(fn, []string{"Int", "Int"}, "Int")
		switch op {
		case token.AND:
			s.axioms = append(s.axioms, fmt.Sprintf("(assert (forall ((a Int) (b Int)) (! (=> (and (<= 0 a) (<= 0 b)) (and (<= 0 (%s a b)) (<= (%s a b) a) (<= (%s a b) b))) :pattern ((%s a b)))))", fn, fn, fn, fn))
		case token.OR:
			s.axioms = append(s.axioms, fmt.Sprintf("(assert (forall ((a Int) (b Int)) (! (=> (and (<= 0 a) (<= 0 b)) (and (>= (%s a b) a) (>= (%s a b) b) (<= (%s a b) (+ a b)))) :pattern ((%s a b)))))", fn, fn, fn, fn))
			// disjoint operands: a multiple of 2^k OR-ed with a value below 2^k is their sum ((i << k) | j)
			for k := 1; k <= 32; k++ {
				s.axioms = append(s.axioms, fmt.Sprintf("(assert (forall ((a Int) (b Int)) (! (=> (and (<= 0 a) (<= 0 b) (= (mod a %s) 0) (< b %s)) (= (%s a b) (+ a b))) :pattern ((%s a b)))))", pow2s(k), pow2s(k), fn, fn))
			}
		case token.XOR:
			s.axioms = append(s.axioms, fmt.Sprintf("(assert (forall ((a Int) (b Int)) (! (=> (and (<= 0 a) (<= 0 b)) (and (<= 0 (%s a b)) (<= (%s a b) (+ a b)))) :pattern ((%s a b)))))", fn, fn, fn))
		case token.AND_NOT:
			s.axioms = append(s.axioms, fmt.Sprintf("(assert (forall ((a Int) (b Int)) (! (=> (and (<= 0 a) (<= 0 b)) (and (<= 0 (%s a b)) (<= (%s a b) a))) :pattern ((%s a b)))))", fn, fn, fn))
		}
		s.note("wide non-constant bit operation %s modelled as an uninterpreted function with bounds only", fn)
	}
	return "(" + fn + " " + at + " " + bt + ")"
}

func (fe *FnEnc) binopBV(op token.Token, at, bt string, w int, signed bool, tb types.Type, pos token.Pos) string {
	zero := fmt.Sprintf("(_ bv0 %d)", w)
	switch op {
	case token.ADD:
		return "(bvadd " + at + " " + bt + ")"
	case token.SUB:
		return "(bvsub " + at + " " + bt + ")"
	case token.MUL:
		return "(bvmul " + at + " " + bt + ")"
	case token.QUO:
		fe.panicCheck("div0", "(not (= "+bt+" "+zero+"))", pos)
		if signed {
			return "(bvsdiv " + at + " " + bt + ")"
		}
		return "(bvudiv " + at + " " + bt + ")"
	case token.REM:
		fe.panicCheck("div0", "(not (= "+bt+" "+zero+"))", pos)
		if signed {
			return "(bvsrem " + at + " " + bt + ")"
		}
		return "(bvurem " + at + " " + bt + ")"
	case token.AND:
		return "(bvand " + at + " " + bt + ")"
	case token.OR:
		return "(bvor " + at + " " + bt + ")"
	case token.XOR:
		return "(bvxor " + at + " " + bt + ")"
	case token.AND_NOT:
		return "(bvand " + at + " (bvnot " + bt + "))"
	case token.SHL, token.SHR:
		// bring shift count to width w (Go: count >= w gives 0 / sign fill; SMT bvshl/bvlshr agree)
		wb, _, _ := intInfo(tb)
		cnt := bt
		if wb < w {
			cnt = fmt.Sprintf("((_ zero_extend %d) %s)", w-wb, bt)
		} else if wb > w {
			// saturate
			cnt = fmt.Sprintf("(ite (bvuge %s (_ bv%d %d)) (_ bv%d %d) ((_ extract %d 0) %s))", bt, w, wb, w, w, w-1, bt)
		}
		if op == token.SHL {
			return "(bvshl " + at + " " + cnt + ")"
		}
		if signed {
			return "(bvashr " + at + " " + cnt + ")"
		}
		return "(bvlshr " + at + " " + cnt + ")"
	case token.LSS:
		if signed {
			return "(bvslt " + at + " " + bt + ")"
		}
		return "(bvult " + at + " " + bt + ")"
	case token.LEQ:
		if signed {
			return "(bvsle " + at + " " + bt + ")"
		}
		return "(bvule " + at + " " + bt + ")"
	case token.GTR:
		if signed {
			return "(bvsgt " + at + " " + bt + ")"
		}
		return "(bvugt " + at + " " + bt + ")"
	case token.GEQ:
		if signed {
			return "(bvsge " + at + " " + bt + ")"
		}
		return "(bvuge " + at + " " + bt + ")"
	}
	fe.unsupported("bv binop %s", op)
	return fe.s.fresh("bo", fe.s.intSort(w))
}

func (fe *FnEnc) equalVals(a, b Val, t types.Type) string {
	if len(a.Alts) > 0 && b.Term == "0" {
		return fe.altsNil(a)
	}
	if len(b.Alts) > 0 && a.Term == "0" {
		return fe.altsNil(b)
	}
	// pointers with interior addresses
	if _, ok := types.Unalias(t).Underlying().(*types.Pointer); ok {
		if a.Addr != nil && a.Term == "" && (len(a.Addr.Steps) > 0 || a.Addr.Root != rootHeap) {
			if b.Term == "0" {
				return a.Addr.Nil
			}
			if b.Addr != nil && sameAddr(a.Addr, b.Addr) {
				return "true"
			}
			fe.unsupported("comparison of interior pointers")
			return fe.s.fresh("pe", "Bool")
		}
		if b.Addr != nil && b.Term == "" && (len(b.Addr.Steps) > 0 || b.Addr.Root != rootHeap) {
			if a.Term == "0" {
				return b.Addr.Nil
			}
			fe.unsupported("comparison of interior pointers")
			return fe.s.fresh("pe", "Bool")
		}
	}
	if _, ok := types.Unalias(t).Underlying().(*types.Slice); ok {
		// only comparison with nil is legal
		v := a
		if a.View == nil || (b.View != nil && b.View.NilFlag != "true") {
			v = b
		}
		if v.View != nil {
			if v.View.NilFlag != "" {
				return v.View.NilFlag
			}
			fe.unsupported("slice == nil on a slice of unknown nil-ness")
			return fe.s.fresh("sn", "Bool")
		}
	}
	if _, ok := types.Unalias(t).Underlying().(*types.Map); ok {
		v := a
		if a.Map == nil {
			v = b
		}
		if v.Map != nil {
			mt := v.Map.T
			return fe.s.mapPart(fe.s.sortOf(mt.Key()), fe.s.sortOf(mt.Elem()), "mnil", fe.s.load(fe.mem, v.Map.Origin))
		}
	}
	if _, ok := types.Unalias(t).Underlying().(*types.Signature); ok {
		// func == nil
		for _, v := range []Val{a, b} {
			if v.Fn != nil || v.Clo != nil {
				return "false"
			}
		}
	}
	return "(= " + fe.valTerm(a) + " " + fe.valTerm(b) + ")"
}

func (fe *FnEnc) unop(x *ssa.UnOp) Val {
	s := fe.s
	v := fe.val(x.X)
	t := x.Type()
	switch x.Op {
	case token.NOT:
		return Val{T: t, Term: not(v.Term)}
	case token.SUB:
		w, signed, _ := intInfo(t)
		if s.mode == "bv" {
			return Val{T: t, Term: "(bvneg " + v.Term + ")"}
		}
		return Val{T: t, Term: s.name("t", "Int", s.wrap("(- 0 "+v.Term+")", w, signed))}
	case token.XOR:
		w, signed, _ := intInfo(t)
		if s.mode == "bv" {
			return Val{T: t, Term: "(bvnot " + v.Term + ")"}
		}
		if signed {
			return Val{T: t, Term: "(- (- 0 " + v.Term + ") 1)"}
		}
		return Val{T: t, Term: "(- " + new(big.Int).Sub(pow2(w), big.NewInt(1)).String() + " " + v.Term + ")"}
	case token.MUL:
		return fe.loadVal(v, t, x.Pos(), x.X)
	case token.ARROW:
		fe.unsupported("channel receive")
		return fe.freshVal("rx", t)
	}
	fe.unsupported("unop %s", x.Op)
	return fe.freshVal("uo", t)
}

// loadVal loads the value of type t at pointer v.
func (fe *FnEnc) loadVal(p Val, t types.Type, pos token.Pos, src ssa.Value) Val {
	s := fe.s
	if len(p.Alts) > 0 {
		fe.panicCheck("nilderef", not(fe.altsNil(p)), pos)
		srt := s.sortOf(t)
		term := ""
		for i := len(p.Alts) - 1; i >= 0; i-- {
			al := p.Alts[i]
			if al.V.Term == "0" && al.V.Addr == nil {
				continue
			}
			lv := s.load(fe.mem, fe.ptrAddr(al.V))
			if term == "" {
				term = lv
			} else {
				term = ite(al.Cond, lv, term)
			}
		}
		if term == "" {
			return fe.freshVal("ld", t)
		}
		n := s.name("ld", srt, term)
		s.assumeRange(t, n)
		return fe.wrapTerm(n, t)
	}
	a := fe.ptrAddr(p)
	fe.panicCheck("nilderef", not(a.Nil), pos)
	fe.guardCheck(a, false, pos)
	if a.Root == rootCell && len(a.Steps) == 0 {
		if pv, ok := fe.mem.ptrs[a.Cell]; ok {
			return pv
		}
	}
	if hk := fe.s.heapPtrKey(a); hk != "" {
		if pv, ok := fe.mem.ptrs[hk]; ok {
			return pv
		}
	}
	switch u := types.Unalias(t).Underlying().(type) {
	case *types.Slice:
		es := s.sortOf(u.Elem())
		cur := s.load(fe.mem, a)
		ln := s.name("ln", "Int", s.seqLen(es, cur))
		s.assert("(and (<= 0 " + ln + ") (< " + ln + " 9223372036854775808))")
		return Val{T: t, View: &View{Origin: a, Off: "0", Len: ln, Elem: u.Elem()}}
	case *types.Map:
		return Val{T: t, Map: &MapV{Origin: a, T: u}}
	case *types.Signature:
		if g, ok := src.(*ssa.Global); ok {
			return Val{T: t, Fn: g}
		}
	}
	srt := s.sortOf(t)
	n := s.name("ld", srt, s.load(fe.mem, a))
	s.assumeRange(t, n)
	if g, ok := src.(*ssa.Global); ok && fe.g.isConstNonNilGlobal(g) {
		s.assert("(not (= " + n + " 0))")
	}
	if pt, ok := types.Unalias(t).Underlying().(*types.Pointer); ok {
		fe.assumePtr(pt, n)
	}
	return Val{T: t, Term: n}
}

func (fe *FnEnc) storeInstr(x *ssa.Store) {
	a := fe.ptrAddr(fe.val(x.Addr))
	fe.panicCheck("nilderef", not(a.Nil), x.Pos())
	fe.guardCheck(a, true, x.Pos())
	v := fe.val(x.Val)
	fe.storeTo(a, v)
}

func (fe *FnEnc) storeTo(a *Addr, v Val) {
	if a.Root == rootCell && len(a.Steps) == 0 {
		if v.Term == "" && v.Addr != nil && (len(v.Addr.Steps) > 0 || v.Addr.Root != rootHeap) {
			// a local of pointer type holding an interior address: kept at generator level
			fe.mem.ptrs[a.Cell] = v
			return
		}
		delete(fe.mem.ptrs, a.Cell)
	}
	if a.Root == rootHeap {
		// interior pointers stored in a field of an object allocated by this call are kept at generator
		// level (keyed by field and fresh reference); any other store to that field forgets them
		hk := fe.s.heapPtrKey(a)
		for _, k := range fe.s.heapKeysOf(a) {
			for pk := range fe.mem.ptrs {
				if strings.HasPrefix(pk, "heap:"+k+"@") && pk != hk {
					delete(fe.mem.ptrs, pk)
				}
			}
		}
		if hk != "" {
			if v.Term == "" && v.Addr != nil && (len(v.Addr.Steps) > 0 || v.Addr.Root != rootHeap) {
				fe.mem.ptrs[hk] = v
				junk := fe.s.fresh("ip", "Int")
				fe.recordMod(fe.s.store(fe.mem, a, junk))
				return
			}
			delete(fe.mem.ptrs, hk)
		}
	}
	term := fe.valTerm(v)
	keys := fe.s.store(fe.mem, a, term)
	fe.recordMod(keys)
}

func (fe *FnEnc) convert(x *ssa.Convert) Val {
	s := fe.s
	v := fe.val(x.X)
	from, to := x.X.Type(), x.Type()
	wf, sf, okf := intInfo(from)
	wt, st, okt := intInfo(to)
	if okf && okt {
		if s.mode == "bv" {
			var r string
			switch {
			case wt == wf:
				r = v.Term
			case wt < wf:
				r = fmt.Sprintf("((_ extract %d 0) %s)", wt-1, v.Term)
			case sf:
				r = fmt.Sprintf("((_ sign_extend %d) %s)", wt-wf, v.Term)
			default:
				r = fmt.Sprintf("((_ zero_extend %d) %s)", wt-wf, v.Term)
			}
			return Val{T: to, Term: r}
		}
		// value-preserving when the source range fits the target
		fits := (!sf && !st && wf <= wt) || (sf && st && wf <= wt) || (!sf && st && wf < wt)
		if fits {
			return Val{T: to, Term: v.Term}
		}
		return Val{T: to, Term: s.name("cv", "Int", s.wrap(v.Term, wt, st))}
	}
	// slice <-> string, etc.
	if _, ok := types.Unalias(to).Underlying().(*types.Slice); ok {
		if v.View != nil {
			v.T = to
			return v
		}
	}
	fb, _ := types.Unalias(from).Underlying().(*types.Basic)
	tb, _ := types.Unalias(to).Underlying().(*types.Basic)
	if fb != nil && tb != nil && fb.Info()&types.IsString != 0 && tb.Info()&types.IsString != 0 {
		v.T = to
		return v
	}
	fe.s.note("conversion %v -> %v modelled as an unconstrained value in %s", from, to, fe.fnName())
	return fe.freshVal("conv", to)
}

func (fe *FnEnc) makeInterface(x *ssa.MakeInterface) Val {
	s := fe.s
	v := fe.val(x.X)
	ct := x.X.Type()
	id := s.typeID(ct)
	srt := s.sortOf(ct)
	box := "ibox_" + sortID(srt) + fmt.Sprintf("_%d", id)
	unbox := "ival_" + sortID(srt)
	s.declFun(box, []string{srt}, "Int")
	s.declFun(unbox, []string{"Int"}, srt)
	term := fe.valTerm(v)
	n := s.name("ifc", "Int", "("+box+" "+term+")")
	s.assert(fmt.Sprintf("(and (not (= %s 0)) (= (ityp %s) %d) (= (%s %s) %s))", n, n, id, unbox, n, term))
	return Val{T: x.Type(), Term: n, Boxed: &v}
}

func (fe *FnEnc) typeAssert(x *ssa.TypeAssert) Val {
	s := fe.s
	v := fe.val(x.X)
	at := x.AssertedType
	var ok string
	var val Val
	if ifc, isIface := types.Unalias(at).Underlying().(*types.Interface); isIface && types.Implements(x.X.Type(), ifc) {
		// statically known to implement the target interface: only nil-ness matters
		ok = "(not (= " + v.Term + " 0))"
		val = Val{T: at, Term: v.Term}
	} else if isIface {
		fn := s.implementsFn(at)
		ok = "(and (not (= " + v.Term + " 0)) (" + fn + " (ityp " + v.Term + ")))"
		val = Val{T: at, Term: v.Term}
	} else {
		id := s.typeID(at)
		srt := s.sortOf(at)
		unbox := "ival_" + sortID(srt)
		s.declFun(unbox, []string{"Int"}, srt)
		ok = fmt.Sprintf("(and (not (= %s 0)) (= (ityp %s) %d))", v.Term, v.Term, id)
		n := s.name("ta", srt, "("+unbox+" "+v.Term+")")
		s.assumeRange(at, n)
		val = fe.wrapTerm(n, at)
	}
	if x.CommaOk {
		okn := s.name("tok", "Bool", ok)
		return Val{T: x.Type(), Tup: []Val{val, {T: types.Typ[types.Bool], Term: okn}}}
	}
	fe.panicCheck("typeassert", ok, x.Pos())
	return val
}

func (fe *FnEnc) alloc(x *ssa.Alloc) Val {
	s := fe.s
	et := x.Type().(*types.Pointer).Elem()
	if _, isStruct := structOf(et); isStruct && x.Heap {
		k := "next_" + sortID(s.sortOf(et))
		ref := s.fresh("new", "Int")
		s.assert("(= " + ref + " " + s.ghostGet(fe.mem, k, "Int") + ")")
		s.assert("(>= " + ref + " " + s.ghostGet(fe.top.entryMem, k, "Int") + ")")
		fe.mem.ghost[k] = s.name("nx", "Int", "(+ "+ref+" 1)")
		a := &Addr{Root: rootHeap, RootT: et, Ref: ref, Nil: "false"}
		if fe.top == fe {
			fe.top.freshObjs = append(fe.top.freshObjs, freshObj{x: x, ref: ref, et: et})
		}
		keys := s.store(fe.mem, a, s.zero(et))
		fe.recordMod(append(keys, "ghost:"+k))
		if gd := fe.g.guardFor(et); gd != nil && gd.Mutex != "none" {
			// a fresh object's mutex is free
			gk := "lock_" + mangle(types.TypeString(et, nil)) + "_" + gd.Mutex
			fe.g.ghostSorts[gk] = "(Array Int Int)"
			cur := s.ghostGet(fe.mem, gk, "(Array Int Int)")
			fe.mem.ghost[gk] = s.name("lk", "(Array Int Int)", "(store "+cur+" "+ref+" 0)")
			fe.recordMod([]string{"ghost:" + gk})
		}
		return Val{T: x.Type(), Addr: a, Term: ref}
	}
	ck := fe.newCell("loc_"+mangle(x.Comment), et, s.zero(et))
	fe.recordMod([]string{"cell:" + ck})
	return Val{T: x.Type(), Addr: &Addr{Root: rootCell, Cell: ck, RootT: et, Nil: "false"}}
}

func (fe *FnEnc) index(x *ssa.Index) Val {
	s := fe.s
	v := fe.val(x.X)
	i := fe.idxTerm(fe.val(x.Index), x.Index.Type())
	switch u := types.Unalias(x.X.Type()).Underlying().(type) {
	case *types.Array:
		fe.panicCheck("index", fmt.Sprintf("(and (<= 0 %s) (< %s %d))", i, i, u.Len()), x.Pos())
		n := s.name("ix", s.sortOf(u.Elem()), s.arrSelect(u, fe.valTerm(v), i))
		s.assumeRange(u.Elem(), n)
		return fe.wrapTerm(n, u.Elem())
	case *types.Basic: // string index
		s.declFun("str_len", []string{"Str"}, "Int")
		s.declFun("str_at", []string{"Str", "Int"}, "Int")
		fe.panicCheck("index", fmt.Sprintf("(and (<= 0 %s) (< %s (str_len %s)))", i, i, v.Term), x.Pos())
		n := s.name("ix", "Int", "(str_at "+v.Term+" "+i+")")
		s.assumeRange(types.Typ[types.Uint8], n)
		return Val{T: x.Type(), Term: n}
	}
	fe.unsupported("index on %v", x.X.Type())
	return fe.freshVal("ix", x.Type())
}

// idxTerm converts an index value to an Int term.
func (fe *FnEnc) idxTerm(v Val, t types.Type) string {
	if fe.s.mode == "bv" {
		if c, ok := bvConst(v.Term); ok {
			return c
		}
		fe.unsupported("non-constant index in bv mode")
		return "0"
	}
	return v.Term
}

func bvConst(t string) (string, bool) {
	var v string
	var w int
	if n, _ := fmt.Sscanf(t, "(_ bv%s %d)", &v, &w); n >= 1 {
		return strings.TrimSpace(v), true
	}
	return "", false
}

func (fe *FnEnc) indexAddr(x *ssa.IndexAddr) Val {
	v := fe.val(x.X)
	i := fe.idxTerm(fe.val(x.Index), x.Index.Type())
	switch u := types.Unalias(x.X.Type()).Underlying().(type) {
	case *types.Slice:
		if v.View == nil {
			fe.unsupported("IndexAddr on non-view slice")
			return Val{T: x.Type(), Addr: &Addr{Root: rootCell, Cell: "bad", RootT: u.Elem(), Nil: "false"}}
		}
		fe.panicCheck("index", fmt.Sprintf("(and (<= 0 %s) (< %s %s))", i, i, v.View.Len), x.Pos())
		a := fe.s.viewElemAddr(v.View, i)
		a.Nil = "false"
		return Val{T: x.Type(), Addr: a}
	case *types.Pointer:
		arr := u.Elem().Underlying().(*types.Array)
		a := fe.ptrAddr(v)
		fe.panicCheck("nilderef", not(a.Nil), x.Pos())
		fe.panicCheck("index", fmt.Sprintf("(and (<= 0 %s) (< %s %d))", i, i, arr.Len()), x.Pos())
		na := a.with(Step{Kind: stArr, Idx: i, T: a.elemType()})
		na.Nil = "false"
		return Val{T: x.Type(), Addr: na}
	}
	fe.unsupported("IndexAddr on %v", x.X.Type())
	return fe.freshVal("ia", x.Type())
}

func (fe *FnEnc) slice(x *ssa.Slice) Val {
	s := fe.s
	v := fe.val(x.X)
	var lo, hi string
	if x.Low != nil {
		lo = fe.val(x.Low).Term
	} else {
		lo = "0"
	}
	switch u := types.Unalias(x.X.Type()).Underlying().(type) {
	case *types.Slice:
		if v.View == nil {
			break
		}
		if x.High != nil {
			hi = fe.val(x.High).Term
		} else {
			hi = v.View.Len
		}
		// Go allows hi <= cap
		fe.panicCheck("slice", fmt.Sprintf("(and (<= 0 %s) (<= %s %s) (<= %s %s))", lo, lo, hi, hi, fe.viewCap(v.View)), x.Pos())
		nv := *v.View
		if lo != "0" {
			nv.Off = s.nameUnlessConst("so", foldAdd(v.View.Off, lo))
			nv.Cap = foldSub(fe.viewCap(v.View), lo)
		}
		nv.Len = s.nameUnlessConst("sl", foldSub(hi, lo))
		if v.View.NilFlag == "true" {
			nv.NilFlag = "true"
		} else {
			nv.NilFlag = ""
		}
		_ = u
		return Val{T: x.Type(), View: &nv}
	case *types.Pointer:
		arr := u.Elem().Underlying().(*types.Array)
		a := fe.ptrAddr(v)
		fe.panicCheck("nilderef", not(a.Nil), x.Pos())
		if x.High != nil {
			hi = fe.val(x.High).Term
		} else {
			hi = fmt.Sprint(arr.Len())
		}
		fe.panicCheck("slice", fmt.Sprintf("(and (<= 0 %s) (<= %s %s) (<= %s %d))", lo, lo, hi, hi, arr.Len()), x.Pos())
		ln := "(- " + hi + " " + lo + ")"
		if ch, ok1 := isConstTerm(hi); ok1 {
			if cl, ok2 := isConstTerm(lo); ok2 {
				ln = numInt(new(big.Int).Sub(ch, cl))
			}
		}
		return Val{T: x.Type(), View: &View{Origin: a, Off: lo, Len: s.nameUnlessConst("sl", ln), IsArray: true, Elem: arr.Elem(), NilFlag: "false"}}
	case *types.Basic:
		fe.unsupported("string slicing")
		return fe.freshVal("ss", x.Type())
	}
	fe.unsupported("slice of %v", x.X.Type())
	return fe.freshVal("sl", x.Type())
}

func (fe *FnEnc) makeSlice(x *ssa.MakeSlice) Val {
	s := fe.s
	t := x.Type()
	et := t.Underlying().(*types.Slice).Elem()
	es := s.sortOf(et)
	ln := fe.val(x.Len).Term
	cp := fe.val(x.Cap).Term
	fe.panicCheck("makeslice", fmt.Sprintf("(and (<= 0 %s) (<= %s %s))", ln, ln, cp), x.Pos())
	z := s.mkSeq(es, ln, "((as const (Array Int "+es+")) "+s.zero(et)+")")
	v := fe.wrapTerm(s.name("mk", s.sortOf(t), z), t)
	v.View.NilFlag = "false"
	v.View.Len = ln
	return v
}

func (fe *FnEnc) mapUpdate(x *ssa.MapUpdate) {
	s := fe.s
	m := fe.val(x.Map)
	if m.Map == nil {
		fe.unsupported("MapUpdate on unknown map")
		return
	}
	mt := m.Map.T
	ks, vs := s.sortOf(mt.Key()), s.sortOf(mt.Elem())
	cur := s.name("mcur", s.sortOf(mt), s.load(fe.mem, m.Map.Origin))
	fe.panicCheck("nilmap", not(s.mapPart(ks, vs, "mnil", cur)), x.Pos())
	k := fe.valTerm(fe.val(x.Key))
	v := fe.valTerm(fe.val(x.Value))
	has := s.mapPart(ks, vs, "mhas", cur)
	size := s.mapPart(ks, vs, "msize", cur)
	nm := s.mkMap(ks, vs, "false", "(store "+has+" "+k+" true)", "(store "+s.mapPart(ks, vs, "mval", cur)+" "+k+" "+v+")",
		"(ite (select "+has+" "+k+") "+size+" (+ "+size+" 1))")
	keys := s.store(fe.mem, m.Map.Origin, nm)
	fe.recordMod(keys)
}

func (fe *FnEnc) lookup(x *ssa.Lookup) Val {
	s := fe.s
	m := fe.val(x.X)
	if m.Map == nil {
		// string index
		fe.unsupported("Lookup on %v", x.X.Type())
		return fe.freshVal("lk", x.Type())
	}
	mt := m.Map.T
	ks, vs := s.sortOf(mt.Key()), s.sortOf(mt.Elem())
	cur := s.load(fe.mem, m.Map.Origin)
	k := fe.valTerm(fe.val(x.Index))
	has := s.name("has", "Bool", "(and (not "+s.mapPart(ks, vs, "mnil", cur)+") (select "+s.mapPart(ks, vs, "mhas", cur)+" "+k+"))")
	val := s.name("mv", vs, ite(has, "(select "+s.mapPart(ks, vs, "mval", cur)+" "+k+")", s.zero(mt.Elem())))
	s.assumeRange(mt.Elem(), val)
	vv := fe.wrapTerm(val, mt.Elem())
	if x.CommaOk {
		return Val{T: x.Type(), Tup: []Val{vv, {T: types.Typ[types.Bool], Term: has}}}
	}
	return vv
}

// next models one step of a range iteration in havoc form: an arbitrary
// element (map: arbitrary present key) or end of iteration.
func (fe *FnEnc) next(x *ssa.Next) Val {
	s := fe.s
	it := fe.val(x.Iter)
	ok := s.fresh("nxok", "Bool")
	tup := x.Type().(*types.Tuple)
	if len(it.Tup) == 1 && it.Tup[0].Map != nil {
		m := it.Tup[0].Map
		ks, vs := s.sortOf(m.T.Key()), s.sortOf(m.T.Elem())
		cur := s.load(fe.mem, m.Origin)
		k := s.fresh("nxk", ks)
		s.assumeRange(m.T.Key(), k)
		s.assert("(=> " + ok + " (and (not " + s.mapPart(ks, vs, "mnil", cur) + ") (select " + s.mapPart(ks, vs, "mhas", cur) + " " + k + ")))")
		if rg, isRange := x.Iter.(*ssa.Range); isRange {
			// every key is produced at most once; the iteration ends only when every key still present
			// has been produced (Go: entries removed before being reached are not produced)
			gk, srt := fe.iterKey(rg, m)
			done := s.ghostGet(fe.mem, gk, srt)
			s.assert("(=> " + ok + " (not (select " + done + " " + k + ")))")
			s.nq++
			q := fmt.Sprintf("itq%d", s.nq)
			has := "(select " + s.mapPart(ks, vs, "mhas", cur) + " " + q + ")"
			s.assert("(=> (not " + ok + ") (forall ((" + q + " " + ks + ")) (! (=> (and (not " + s.mapPart(ks, vs, "mnil", cur) + ") " + has + ") (select " + done + " " + q + ")) :pattern (" + has + ") :pattern ((select " + done + " " + q + ")))))")
			fe.mem.ghost[gk] = s.name("it", srt, "(ite "+ok+" (store "+done+" "+k+" true) "+done+")")
			fe.recordMod([]string{"ghost:" + gk})
		}
		v := s.name("nxv", vs, "(select "+s.mapPart(ks, vs, "mval", cur)+" "+k+")")
		s.assumeRange(m.T.Elem(), v)
		fe.s.note("map range in %s: body verified for an arbitrary present key (havoc form)", fe.fnName())
		return Val{T: x.Type(), Tup: []Val{{T: types.Typ[types.Bool], Term: ok}, fe.wrapTerm(k, tup.At(1).Type()), fe.wrapTerm(v, tup.At(2).Type())}}
	}
	fe.unsupported("range over %v", x.Iter.Type())
	return Val{T: x.Type(), Tup: []Val{{T: types.Typ[types.Bool], Term: ok}, fe.freshVal("nk", tup.At(1).Type()), fe.freshVal("nv", tup.At(2).Type())}}
}

// iterKey names the ghost "produced keys" set of a range-over-map iteration.
func (fe *FnEnc) iterKey(x *ssa.Range, m *MapV) (string, string) {
	gk := "iter_" + mangle(fe.fn.Name()) + "_" + x.Name()
	srt := "(Array " + fe.s.sortOf(m.T.Key()) + " Bool)"
	fe.g.ghostSorts[gk] = srt
	return gk, srt
}

func (fe *FnEnc) explicitPanic(x *ssa.Panic) {
	top := fe.top
	if top.ct != nil && top.ct.PanicsIf != nil {
		// allowed only when the declared condition holds (evaluated on entry state)
		ev := top.newEval(top.entryMem, top.entryMem, top.paramVals)
		c := ev.evalBool(top.ct.PanicsIf.E)
		fe.check("panic:explicit", fe.siteLabelN("explicit"), c, "explicit panic only if "+top.ct.PanicsIf.Src, x.Pos())
	} else {
		fe.panicCheck("explicit", "false", x.Pos())
	}
	// path ends here
	fe.guard = "false"
}

func (fe *FnEnc) siteLabelN(kind string) string {
	fe.top.sites[kind]++
	return fmt.Sprintf("@%d", fe.top.sites[kind])
}

// guardCheck: an access to a field declared guarded_by a mutex needs the
// lock (read: any mode, write: exclusive).  Checked in methods of the struct.
func (fe *FnEnc) guardCheck(a *Addr, write bool, pos token.Pos) {
	if a.Root != rootHeap || len(a.Steps) == 0 || a.Steps[0].Kind != stField {
		return
	}
	gd := fe.g.guardFor(a.RootT)
	if gd == nil {
		return
	}
	top := fe.top
	if gd.Mutex == "none" {
		// "guarded T none: f": objects of T are shared between goroutines and f has no guard at all, so a
		// plain write to f is a data race unless the object was allocated by this very call (any function)
		st, _ := structOf(a.RootT)
		fname := st.Field(a.Steps[0].Field).Name()
		if !gd.Fields[fname] || !write {
			return
		}
		nk := "next_" + sortID(fe.s.sortOf(a.RootT))
		cond := "(>= " + a.Ref + " " + fe.s.ghostGet(fe.top.entryMem, nk, "Int") + ")"
		top.sites["lock:write"]++
		fe.check("lock:write", fmt.Sprintf("@%d.%s", top.sites["lock:write"], fname), cond, "write to "+fname+", a field of a shared object that no lock guards, only on objects allocated by this call", pos)
		return
	}
	recv := top.fn.Signature.Recv()
	if recv == nil {
		return
	}
	rt := recv.Type()
	if p, ok := rt.(*types.Pointer); ok {
		rt = p.Elem()
	}
	if !types.Identical(rt, a.RootT) {
		return
	}
	st, _ := structOf(a.RootT)
	fname := st.Field(a.Steps[0].Field).Name()
	if !gd.Fields[fname] {
		return
	}
	gk := "lock_" + mangle(types.TypeString(a.RootT, nil)) + "_" + gd.Mutex
	fe.g.ghostSorts[gk] = "(Array Int Int)"
	cur := fe.s.ghostGet(fe.mem, gk, "(Array Int Int)")
	stt := "(select " + cur + " " + a.Ref + ")"
	kind := "lock:read"
	cond := "(>= " + stt + " 1)"
	if write {
		kind = "lock:write"
		cond = "(= " + stt + " 2)"
	}
	// objects allocated by this very call are not shared yet
	nk := "next_" + sortID(fe.s.sortOf(a.RootT))
	cond = "(or " + cond + " (>= " + a.Ref + " " + fe.s.ghostGet(fe.top.entryMem, nk, "Int") + "))"
	top.sites[kind]++
	fe.check(kind, fmt.Sprintf("@%d.%s", top.sites[kind], fname), cond, "access to guarded field "+fname+" with the lock held", pos)
}

// viewCap returns the (symbolic) capacity of a slice view: unknown but >= len,
// and the same for every view of the same stored slice value.
func (fe *FnEnc) viewCap(v *View) string {
	if v.Cap == "" {
		s := fe.s
		if v.Origin != nil && !v.IsArray && !v.IsStr && v.Off == "0" {
			es := s.sortOf(v.Elem)
			fn := "seqcap_" + sortID(es)
			s.declFun(fn, []string{s.seqSort(es)}, "Int")
			base := s.load(fe.mem, v.Origin)
			c := s.name("cap", "Int", "("+fn+" "+base+")")
			s.assert("(and (>= " + c + " " + s.seqLen(es, base) + ") (>= " + c + " " + v.Len + ") (< " + c + " 9223372036854775808))")
			v.Cap = c
			return c
		}
		c := s.fresh("cap", "Int")
		s.assert("(and (>= " + c + " " + v.Len + ") (< " + c + " 9223372036854775808))")
		v.Cap = c
	}
	return v.Cap
}
