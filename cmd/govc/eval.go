package main

// Evaluation of contract expressions to SMT terms.

import (
	"fmt"
	"go/constant"
	"go/token"
	"go/types"
	"math/big"
	"strings"

	"golang.org/x/tools/go/ssa"
)

type Eval struct {
	fe        *FnEnc
	s         *Sess
	g         *Gen
	mem, old  *Mem
	env       map[string]Val
	bound     map[string]Val
	resolve   func(name string) (Val, bool)
	calleePkg string
	pkg       *types.Package
	errs      []string
	assuming  bool      // the formula will be assumed: well-typedness premises are not added under quantifiers
	negPol    bool      // evaluating in negative position (antecedent of ==>, under !)
	canEmit   bool      // may add assertions to the script (function context)
	pending   *[]string // well-typedness facts about memory reads in the expression being evaluated
}

type evalErr string

func (ev *Eval) fail(f string, a ...interface{}) {
	panic(evalErr(fmt.Sprintf(f, a...)))
}

func (fe *FnEnc) newEval(mem, old *Mem, env map[string]Val) *Eval {
	ev := &Eval{fe: fe, s: fe.s, g: fe.g, mem: mem, old: old, env: env, bound: map[string]Val{}, canEmit: true, pending: &[]string{}}
	if fe.top.fn != nil && fe.top.fn.Pkg != nil {
		ev.pkg = fe.top.fn.Pkg.Pkg
	}
	return ev
}

func (ev *Eval) sub() *Eval {
	n := *ev
	n.bound = map[string]Val{}
	for k, v := range ev.bound {
		n.bound[k] = v
	}
	return &n
}

// evalBool evaluates a Boolean contract expression; evaluation errors
// become an unprovable goal (fail closed) and are noted.
func (ev *Eval) evalBool(e Expr) (res string) {
	defer func() {
		if r := recover(); r != nil {
			if ee, ok := r.(evalErr); ok {
				ev.fe.top.bindErrs = append(ev.fe.top.bindErrs, fmt.Sprintf("%s: %s", exprString(e), string(ee)))
				res = "false"
				return
			}
			panic(r)
		}
	}()
	v := ev.eval(e)
	if v.Term == "" {
		ev.fail("expression is not Boolean")
	}
	ev.flushPending()
	return v.Term
}

// flushPending asserts the collected well-typedness facts (true of every real memory).
func (ev *Eval) flushPending() {
	if ev.pending == nil {
		return
	}
	if ev.canEmit {
		seen := map[string]bool{}
		for _, f := range *ev.pending {
			if !seen[f] {
				seen[f] = true
				ev.s.assert(f)
			}
		}
	}
	*ev.pending = (*ev.pending)[:0]
}

func (ev *Eval) noteRange(t types.Type, term string) {
	if ev.pending == nil || t == nil {
		return
	}
	if _, _, ok := intInfo(t); !ok {
		switch u := types.Unalias(t).Underlying().(type) {
		case *types.Slice, *types.Map, *types.Struct:
		case *types.Pointer:
			// a stored pointer to a struct refers to an allocated object (or is nil): below the watermark of the memory read
			if _, isStruct := structOf(u.Elem()); isStruct && ev.s.mode != "bv" {
				k := "next_" + sortID(ev.s.sortOf(u.Elem()))
				*ev.pending = append(*ev.pending, "(and (<= 0 "+term+") (< "+term+" "+ev.s.ghostGet(ev.mem, k, "Int")+"))")
			}
			return
		default:
			return
		}
	}
	if f := ev.s.rangeFact(t, term); f != "" {
		*ev.pending = append(*ev.pending, f)
	}
}

// evalAssume evaluates an expression that will be assumed: on an evaluation
// error it yields "true" (assuming nothing) and records a bind error, so the
// function's #bind obligation fails instead of the assumption becoming false.
func (ev *Eval) evalAssume(e Expr) string {
	n := len(ev.fe.top.bindErrs)
	ev.assuming = true
	t := ev.evalBool(e)
	ev.assuming = false
	if len(ev.fe.top.bindErrs) > n {
		return "true"
	}
	return t
}

func (ev *Eval) evalTerm(e Expr) (res string) {
	defer func() {
		if r := recover(); r != nil {
			if ee, ok := r.(evalErr); ok {
				ev.fe.top.bindErrs = append(ev.fe.top.bindErrs, fmt.Sprintf("%s: %s", exprString(e), string(ee)))
				res = ev.s.fresh("everr", "Int")
				return
			}
			panic(r)
		}
	}()
	t := ev.term(ev.eval(e))
	ev.flushPending()
	return t
}

// term materializes a Val in the evaluator's memory.
func (ev *Eval) term(v Val) string {
	switch {
	case v.K != nil:
		return numInt(v.K)
	case v.Term != "":
		return v.Term
	case v.View != nil:
		return ev.s.viewSeq(ev.mem, v.View)
	case v.Map != nil:
		return ev.s.load(ev.mem, v.Map.Origin)
	case v.Addr != nil:
		if v.Addr.Root == rootHeap && len(v.Addr.Steps) == 0 {
			return v.Addr.Ref
		}
	}
	ev.fail("value has no first-class term")
	return ""
}

func (ev *Eval) intTerm(v Val, like Val) string {
	if v.K != nil {
		if ev.s.mode == "bv" {
			t := like.T
			if t == nil {
				t = types.Typ[types.Uint64]
			}
			return ev.s.num(v.K, t)
		}
		return numInt(v.K)
	}
	return ev.term(v)
}

// typePkg: the package in whose scope type names of the current contract are resolved.
func (ev *Eval) typePkg() *types.Package {
	if ev.calleePkg != "" {
		if p := ev.g.typesPkg(ev.calleePkg); p != nil {
			return p
		}
	}
	return ev.pkg
}

func (ev *Eval) lookupType(name string) types.Type {
	try := func(p *types.Package) types.Type {
		if p == nil {
			return nil
		}
		if o := p.Scope().Lookup(name); o != nil {
			if tn, ok := o.(*types.TypeName); ok {
				return tn.Type()
			}
		}
		return nil
	}
	if ev.calleePkg != "" {
		if p := ev.g.typesPkg(ev.calleePkg); p != nil {
			if t := try(p); t != nil {
				return t
			}
		}
	}
	if t := try(ev.pkg); t != nil {
		return t
	}
	if ev.pkg != nil {
		for _, imp := range ev.pkg.Imports() {
			if t := try(imp); t != nil {
				return t
			}
		}
	}
	// a sort alias declared in the contracts ("sort Bytes8 = [8]byte")
	if _, ok := ev.g.db.SortAlias[name]; ok {
		if _, gt := ev.specSort(name, ev.calleePkg); gt != nil {
			return gt
		}
	}
	return nil
}

func (ev *Eval) lookupConst(name string) (Val, bool) {
	try := func(p *types.Package) (Val, bool) {
		if p == nil {
			return Val{}, false
		}
		n := name
		if i := strings.Index(name, "."); i >= 0 {
			// pkg.Name
			for _, imp := range p.Imports() {
				if imp.Name() == name[:i] {
					p = imp
					n = name[i+1:]
					break
				}
			}
		}
		o := p.Scope().Lookup(n)
		if c, ok := o.(*types.Const); ok {
			switch c.Val().Kind() {
			case constant.Int:
				bi, _ := new(big.Int).SetString(constant.ToInt(c.Val()).ExactString(), 10)
				if ev.s.mode == "bv" {
					return Val{T: c.Type(), Term: ev.s.num(bi, c.Type())}, true
				}
				return Val{T: c.Type(), K: bi}, true
			case constant.Bool:
				return Val{T: c.Type(), Term: fmt.Sprint(constant.BoolVal(c.Val()))}, true
			}
		}
		return Val{}, false
	}
	if ev.calleePkg != "" {
		if v, ok := try(ev.g.typesPkg(ev.calleePkg)); ok {
			return v, true
		}
	}
	return try(ev.pkg)
}

func (ev *Eval) eval(e Expr) Val {
	s := ev.s
	switch x := e.(type) {
	case *ENum:
		return Val{K: x.V}
	case *EBool:
		if x.V {
			return Val{Term: "true", T: types.Typ[types.Bool]}
		}
		return Val{Term: "false", T: types.Typ[types.Bool]}
	case *EName:
		if v, ok := ev.bound[x.Name]; ok {
			return v
		}
		if v, ok := ev.env[x.Name]; ok {
			return v
		}
		if ev.resolve != nil {
			if v, ok := ev.resolve(x.Name); ok {
				return v
			}
		}
		if x.Name == "nil" {
			return Val{Term: "0", T: types.Typ[types.UntypedNil]}
		}
		if v, ok := ev.lookupConst(x.Name); ok {
			return v
		}
		if ev.g.isGhost(x.Name) {
			t := s.ghostGet(ev.mem, x.Name, ev.s.ghostSortOf(x.Name))
			if gd, ok := ev.g.db.Ghosts[x.Name]; ok && gd[0] != "int" && gd[0] != "bool" {
				srt, gt := ev.g.specSort(s, gd[0], gd[1], nil)
				return ev.wrapSpec(t, srt, gt)
			}
			return Val{Term: t}
		}
		if uf := ev.g.db.UFuns[x.Name]; uf != nil && len(uf.Args) == 0 {
			return ev.specCall(x.Name, nil)
		}
		if gv := ev.lookupGlobal(x.Name); gv != nil {
			return ev.readAddr(gv, gv.RootT)
		}
		ev.fail("unknown name %q", x.Name)
	case *ESel:
		// pkg.Const
		if b, ok := x.X.(*EName); ok {
			if _, isVar := ev.env[b.Name]; !isVar {
				if _, isB := ev.bound[b.Name]; !isB {
					if v, ok := ev.lookupConst(b.Name + "." + x.F); ok {
						return v
					}
					if gv := ev.lookupGlobal(b.Name + "." + x.F); gv != nil {
						return ev.readAddr(gv, gv.RootT)
					}
				}
			}
		}
		base := ev.eval(x.X)
		return ev.selField(base, x.F)
	case *EIdx:
		base := ev.eval(x.X)
		idx := ev.eval(x.I)
		return ev.indexVal(base, idx)
	case *ESlice:
		base := ev.eval(x.X)
		if base.View == nil {
			ev.fail("slice expression on non-slice")
		}
		nv := *base.View
		lo := "0"
		if x.Lo != nil {
			lo = ev.intTerm(ev.eval(x.Lo), Val{})
		}
		hi := base.View.Len
		if x.Hi != nil {
			hi = ev.intTerm(ev.eval(x.Hi), Val{})
		}
		if lo != "0" {
			nv.Off = "(+ " + base.View.Off + " " + lo + ")"
		}
		nv.Len = "(- " + hi + " " + lo + ")"
		return Val{T: base.T, View: &nv}
	case *EUn:
		switch x.Op {
		case "!":
			ev.negPol = !ev.negPol
			t := ev.term(ev.eval(x.X))
			ev.negPol = !ev.negPol
			return Val{Term: not(t), T: types.Typ[types.Bool]}
		case "-":
			v := ev.eval(x.X)
			if v.K != nil {
				return Val{K: new(big.Int).Neg(v.K)}
			}
			if s.mode == "bv" {
				return Val{Term: "(bvneg " + ev.term(v) + ")", T: v.T}
			}
			return Val{Term: "(- " + ev.term(v) + ")", T: v.T}
		case "*":
			v := ev.eval(x.X)
			pt, ok := types.Unalias(v.T).Underlying().(*types.Pointer)
			if !ok {
				ev.fail("dereference of non-pointer")
			}
			return ev.readAddr(ev.fe.ptrAddr(v), pt.Elem())
		case "&":
			v := ev.eval(x.X)
			if v.lval == nil {
				ev.fail("& of non-location")
			}
			return Val{Addr: v.lval, T: types.NewPointer(v.T)}
		}
	case *EBin:
		return ev.binary(x)
	case *ELet:
		v := ev.eval(x.Val)
		sub := ev.sub()
		sub.pending = ev.pending
		sub.bound[x.Name] = v
		return sub.eval(x.Body)
	case *EQuant:
		if lo, hi, body, ok := constRangeQuant(x); ok {
			// forall v :: c1 <= v && v < c2 ==> body with small constant bounds: the conjunction of the
			// instances (constant indices select array elements directly; no trigger needed)
			var parts []string
			for k := lo; k < hi; k++ {
				sub := ev.sub()
				sub.pending = ev.pending
				sub.bound[x.Vars[0]] = Val{K: big.NewInt(k)}
				parts = append(parts, sub.term(sub.eval(body)))
			}
			return Val{Term: and(parts...), T: types.Typ[types.Bool]}
		}
		sub := ev.sub()
		var decls, typed []string
		for i, v := range x.Vars {
			srt := "Int"
			var gt types.Type
			if x.Sorts[i] != "" && x.Sorts[i] != "int" {
				srt, gt = ev.specSort(x.Sorts[i], ev.calleePkg)
			}
			n := "q_" + v
			if ev.s.mode == "bv" && srt == "Int" {
				// bound variables in bv mode are 64-bit
				srt = "(_ BitVec 64)"
				gt = types.Typ[types.Uint64]
			}
			decls = append(decls, "("+n+" "+srt+")")
			sub.bound[v] = sub.wrapSpec(n, srt, gt)
			if gt != nil {
				// a bound variable of a Go type ranges over well-typed values only (slice lengths >= 0,
				// integers within their width): without this an assumed axiom such as
				// "forall b []byte :: 0 <= f(b) <= 8*len(b)" is inconsistent at a negative-length sequence
				if f := ev.s.rangeFact(gt, n); f != "" {
					typed = append(typed, f)
				}
			}
		}
		var inner []string
		if ev.pending != nil {
			sub.pending = &inner
		}
		body := sub.term(sub.eval(x.Body))
		// facts that mention a bound variable become premises of the body; others go outward
		var prem []string
		for _, f := range inner {
			mentions := false
			for _, v := range x.Vars {
				if strings.Contains(f, "q_"+v+" ") || strings.Contains(f, "q_"+v+")") {
					mentions = true
				}
			}
			if mentions {
				prem = append(prem, f)
			} else if ev.pending != nil {
				*ev.pending = append(*ev.pending, f)
			}
		}
		// well-typedness facts of reads under the quantifier help prove a quantified goal; where the formula is
		// in effect assumed (assumed outright, or in negative position of a goal) they are left out: they are
		// true of every real memory, and as premises they would only weaken the assumption
		if ev.assuming != ev.negPol {
			prem = nil
		}
		prem = append(typed, prem...)
		if len(prem) > 0 {
			if x.Forall {
				body = "(=> " + and(prem...) + " " + body + ")"
			} else {
				body = "(and " + and(prem...) + " " + body + ")"
			}
		}
		q := "exists"
		if x.Forall {
			q = "forall"
		}
		if len(x.Pats) > 0 {
			var ps []string
			for _, p := range x.Pats {
				var ts []string
				for _, pe := range p {
					// has(m, k) as a trigger: the membership select only (no connectives in patterns)
					if c, ok := pe.(*ECall); ok && (c.Fn == "has" || c.Fn == "in") && len(c.Args) == 2 {
						m := sub.eval(c.Args[0])
						var mt *types.Map
						var cur string
						if m.Map != nil {
							mt, cur = m.Map.T, s.load(sub.mem, m.Map.Origin)
						} else if m.mapT != nil {
							mt, cur = m.mapT, m.Term
						}
						if mt != nil {
							k := sub.term(sub.coerce(sub.eval(c.Args[1]), mt.Key()))
							ts = append(ts, "(select "+s.mapPart(s.sortOf(mt.Key()), s.sortOf(mt.Elem()), "mhas", cur)+" "+k+")")
							continue
						}
					}
					ts = append(ts, sub.term(sub.eval(pe)))
				}
				ps = append(ps, ":pattern ("+strings.Join(ts, " ")+")")
			}
			body = "(! " + body + " " + strings.Join(ps, " ") + ")"
		}
		return Val{Term: "(" + q + " (" + strings.Join(decls, " ") + ") " + body + ")", T: types.Typ[types.Bool]}
	case *ECall:
		return ev.callExpr(x)
	}
	ev.fail("cannot evaluate %s", exprString(e))
	return Val{}
}

func (ev *Eval) lookupGlobal(name string) *Addr {
	pk := ev.pkg
	if ev.calleePkg != "" {
		if p := ev.g.typesPkg(ev.calleePkg); p != nil {
			pk = p
		}
	}
	if pk == nil {
		return nil
	}
	if i := strings.Index(name, "."); i >= 0 {
		var found *types.Package
		for _, imp := range pk.Imports() {
			if imp.Name() == name[:i] {
				found = imp
			}
		}
		if found == nil {
			return nil
		}
		pk, name = found, name[i+1:]
	}
	if o, ok := pk.Scope().Lookup(name).(*types.Var); ok {
		return &Addr{Root: rootGlobal, Cell: "g:" + pk.Path() + "." + name, RootT: o.Type(), Nil: "false"}
	}
	return nil
}

// wrapSpec wraps a spec-level term of the given sort / Go type.
func (ev *Eval) wrapSpec(term, srt string, gt types.Type) Val {
	if gt != nil {
		switch u := types.Unalias(gt).Underlying().(type) {
		case *types.Slice:
			// spec-level sequence value: an anonymous constant view
			es := ev.s.sortOf(u.Elem())
			return Val{T: gt, Term: term, seqElem: u.Elem(), seqES: es}
		case *types.Map:
			return Val{T: gt, Term: term, mapT: u}
		}
	}
	return Val{T: gt, Term: term}
}

// readAddr reads the location a (of Go type t) in the evaluator's memory.
func (ev *Eval) readAddr(a *Addr, t types.Type) Val {
	s := ev.s
	switch u := types.Unalias(t).Underlying().(type) {
	case *types.Slice:
		es := s.sortOf(u.Elem())
		cur := s.load(ev.mem, a)
		ev.noteRange(t, cur)
		return Val{T: t, View: &View{Origin: a, Off: "0", Len: s.seqLen(es, cur), Elem: u.Elem()}, lval: a}
	case *types.Map:
		ev.noteRange(t, s.load(ev.mem, a))
		return Val{T: t, Map: &MapV{Origin: a, T: u}, lval: a}
	}
	if hk := s.heapPtrKey(a); hk != "" {
		if pv, ok := ev.mem.ptrs[hk]; ok {
			return pv
		}
	}
	x := s.load(ev.mem, a)
	ev.noteRange(t, x)
	return Val{T: t, Term: x, lval: a}
}

func (ev *Eval) selField(base Val, f string) Val {
	s := ev.s
	t := base.T
	if t == nil {
		ev.fail("field %s of untyped value", f)
	}
	if pt, ok := types.Unalias(t).Underlying().(*types.Pointer); ok {
		a := ev.fe.ptrAddr(base)
		st, ok := structOf(pt.Elem())
		if !ok {
			ev.fail("field %s of pointer to non-struct", f)
		}
		idx, path := findField(st, f)
		if idx < 0 {
			ev.fail("no field %s in %v", f, pt.Elem())
		}
		cur := a
		ct := pt.Elem()
		for _, pi := range path {
			cur = cur.with(Step{Kind: stField, Field: pi, T: ct})
			stt, _ := structOf(ct)
			ct = stt.Field(pi).Type()
		}
		return ev.readAddr(cur, ct)
	}
	if st, ok := structOf(t); ok {
		idx, path := findField(st, f)
		if idx < 0 {
			ev.fail("no field %s in %v", f, t)
		}
		if base.lval != nil {
			cur := base.lval
			ct := t
			for _, pi := range path {
				cur = cur.with(Step{Kind: stField, Field: pi, T: ct})
				stt, _ := structOf(ct)
				ct = stt.Field(pi).Type()
			}
			return ev.readAddr(cur, ct)
		}
		x := ev.term(base)
		ct := t
		for _, pi := range path {
			stt, _ := structOf(ct)
			x = "(" + fieldAcc(s.sortOf(ct), stt, pi) + " " + x + ")"
			ct = stt.Field(pi).Type()
		}
		return ev.valueOf(x, ct)
	}
	ev.fail("field %s of non-struct %v", f, t)
	return Val{}
}

// valueOf wraps a pure term of Go type t (slices become spec sequences).
func (ev *Eval) valueOf(x string, t types.Type) Val {
	if t == nil {
		return Val{Term: x}
	}
	switch u := types.Unalias(t).Underlying().(type) {
	case *types.Slice:
		return Val{T: t, Term: x, seqElem: u.Elem(), seqES: ev.s.sortOf(u.Elem())}
	case *types.Map:
		return Val{T: t, Term: x, mapT: u}
	}
	return Val{T: t, Term: x}
}

// findField finds field name (possibly promoted through embedded structs).
func findField(st *types.Struct, name string) (int, []int) {
	for i := 0; i < st.NumFields(); i++ {
		if st.Field(i).Name() == name {
			return i, []int{i}
		}
	}
	for i := 0; i < st.NumFields(); i++ {
		if st.Field(i).Embedded() {
			if est, ok := structOf(st.Field(i).Type()); ok {
				if j, p := findField(est, name); j >= 0 {
					return j, append([]int{i}, p...)
				}
			}
		}
	}
	return -1, nil
}

func (ev *Eval) indexVal(base, idx Val) Val {
	s := ev.s
	switch {
	case base.View != nil:
		i := ev.intTerm(idx, Val{})
		a := s.viewElemAddr(base.View, i)
		return ev.readAddr(a, base.View.Elem)
	case base.seqElem != nil:
		i := ev.intTerm(idx, Val{})
		return ev.valueOf("(select "+s.seqArr(base.seqES, base.Term)+" "+i+")", base.seqElem)
	case base.Map != nil:
		mt := base.Map.T
		k := ev.term(ev.coerce(idx, mt.Key()))
		a := base.Map.Origin.with(Step{Kind: stMapV, Idx: k, T: base.Map.Origin.elemType()})
		return ev.readAddr(a, mt.Elem())
	case base.mapT != nil:
		mt := base.mapT
		ks, vs := s.sortOf(mt.Key()), s.sortOf(mt.Elem())
		k := ev.term(ev.coerce(idx, mt.Key()))
		return ev.valueOf("(select "+s.mapPart(ks, vs, "mval", base.Term)+" "+k+")", mt.Elem())
	}
	if base.T != nil {
		if at, ok := types.Unalias(base.T).Underlying().(*types.Array); ok {
			i := ev.intTerm(idx, Val{})
			if base.lval != nil {
				return ev.readAddr(base.lval.with(Step{Kind: stArr, Idx: i, T: base.T}), at.Elem())
			}
			return ev.valueOf(s.arrSelect(at, ev.term(base), i), at.Elem())
		}
	}
	ev.fail("index of non-indexable value")
	return Val{}
}

func (ev *Eval) coerce(v Val, t types.Type) Val {
	if v.K != nil {
		return Val{T: t, Term: ev.s.num(v.K, t)}
	}
	return v
}

func (ev *Eval) binary(x *EBin) Val {
	s := ev.s
	boolT := types.Typ[types.Bool]
	switch x.Op {
	case "&&":
		return Val{Term: and(ev.term(ev.eval(x.L)), ev.term(ev.eval(x.R))), T: boolT}
	case "||":
		return Val{Term: or(ev.term(ev.eval(x.L)), ev.term(ev.eval(x.R))), T: boolT}
	case "==>":
		// the antecedent is in negative position: a quantifier there is in effect assumed (see EQuant)
		ev.negPol = !ev.negPol
		l := ev.term(ev.eval(x.L))
		ev.negPol = !ev.negPol
		return Val{Term: implies(l, ev.term(ev.eval(x.R))), T: boolT}
	case "<==>":
		return Val{Term: "(= " + ev.term(ev.eval(x.L)) + " " + ev.term(ev.eval(x.R)) + ")", T: boolT}
	}
	l, r := ev.eval(x.L), ev.eval(x.R)
	if l.K != nil && r.K != nil {
		// constant folding
		a, b := l.K, r.K
		switch x.Op {
		case "+":
			return Val{K: new(big.Int).Add(a, b)}
		case "-":
			return Val{K: new(big.Int).Sub(a, b)}
		case "*":
			return Val{K: new(big.Int).Mul(a, b)}
		case "/":
			if b.Sign() != 0 {
				return Val{K: new(big.Int).Div(a, b)}
			}
		case "%":
			if b.Sign() != 0 {
				return Val{K: new(big.Int).Mod(a, b)}
			}
		case "<<":
			return Val{K: new(big.Int).Lsh(a, uint(b.Int64()))}
		case ">>":
			return Val{K: new(big.Int).Rsh(a, uint(b.Int64()))}
		}
	}
	switch x.Op {
	case "==", "!=":
		var eq string
		if l.Addr != nil || r.Addr != nil || isNilVal(l) || isNilVal(r) || len(l.Alts) > 0 || len(r.Alts) > 0 {
			eq = ev.ptrEq(l, r)
		} else {
			lt, rt := ev.intTerm(l, r), ev.intTerm(r, l)
			eq = "(= " + lt + " " + rt + ")"
		}
		if x.Op == "!=" {
			eq = not(eq)
		}
		return Val{Term: eq, T: boolT}
	}
	lt, rt := ev.intTerm(l, r), ev.intTerm(r, l)
	typ := l.T
	if l.K != nil || typ == nil {
		typ = r.T
	}
	if s.mode == "bv" {
		_, signed, _ := intInfo(typ)
		w := 64
		if ww, _, ok := intInfo(typ); ok {
			w = ww
		}
		var tk token.Token
		switch x.Op {
		case "+":
			tk = token.ADD
		case "-":
			tk = token.SUB
		case "*":
			tk = token.MUL
		case "/":
			tk = token.QUO
		case "%":
			tk = token.REM
		case "&":
			tk = token.AND
		case "|":
			tk = token.OR
		case "^":
			tk = token.XOR
		case "<<":
			tk = token.SHL
		case ">>":
			tk = token.SHR
		case "<":
			tk = token.LSS
		case "<=":
			tk = token.LEQ
		case ">":
			tk = token.GTR
		case ">=":
			tk = token.GEQ
		default:
			ev.fail("operator %s in bv mode", x.Op)
		}
		saveP := ev.fe.top.ct
		// contract arithmetic never generates panic obligations
		ev.fe.top.ctNoPanic++
		t := ev.fe.binopBV(tk, lt, rt, w, signed, typ, token.NoPos)
		ev.fe.top.ctNoPanic--
		_ = saveP
		if isCmp(x.Op) {
			return Val{Term: t, T: boolT}
		}
		return Val{Term: t, T: typ}
	}
	switch x.Op {
	case "+", "-", "*":
		return Val{Term: "(" + x.Op + " " + lt + " " + rt + ")", T: nil}
	case "/":
		return Val{Term: "(div " + lt + " " + rt + ")"}
	case "%":
		return Val{Term: "(mod " + lt + " " + rt + ")"}
	case "<", "<=", ">", ">=":
		return Val{Term: "(" + x.Op + " " + lt + " " + rt + ")", T: boolT}
	case "<<":
		if r.K != nil {
			return Val{Term: "(* " + lt + " " + pow2s(int(r.K.Int64())) + ")"}
		}
	case ">>":
		if r.K != nil {
			return Val{Term: "(div " + lt + " " + pow2s(int(r.K.Int64())) + ")"}
		}
	case "^", "|":
		if w, signed, ok := intInfo(typ); ok && !signed && w <= 8 {
			tk := token.XOR
			if x.Op == "|" {
				tk = token.OR
			}
			return Val{Term: ev.fe.bitop(tk, lt, rt, w, false), T: typ}
		}
	case "&":
		if w, signed, ok := intInfo(typ); ok && !signed && w <= 8 && r.K == nil {
			return Val{Term: ev.fe.bitop(token.AND, lt, rt, w, false), T: typ}
		}
		if r.K != nil {
			if k, ok := isPow2(new(big.Int).Add(r.K, big.NewInt(1))); ok {
				return Val{Term: "(mod " + lt + " " + pow2s(k) + ")"}
			}
			if k, ok := isPow2(r.K); ok {
				return Val{Term: fmt.Sprintf("(* %s (mod (div %s %s) 2))", pow2s(k), lt, pow2s(k))}
			}
		}
	}
	ev.fail("operator %s not supported in int-mode contracts for these operands", x.Op)
	return Val{}
}

func isNilVal(v Val) bool {
	return v.Term == "0" && v.T != nil && types.Unalias(v.T) == types.Typ[types.UntypedNil]
}

func (ev *Eval) ptrEq(l, r Val) string {
	nilOf := func(v Val) (string, bool) {
		if len(v.Alts) > 0 {
			return ev.fe.altsNil(v), true
		}
		if v.View != nil {
			if v.View.NilFlag != "" {
				return v.View.NilFlag, true
			}
			return "", false
		}
		if v.Map != nil {
			mt := v.Map.T
			return ev.s.mapPart(ev.s.sortOf(mt.Key()), ev.s.sortOf(mt.Elem()), "mnil", ev.s.load(ev.mem, v.Map.Origin)), true
		}
		if v.Addr != nil && v.Term == "" {
			return v.Addr.Nil, true
		}
		return "(= " + ev.term(v) + " 0)", true
	}
	if isNilVal(l) {
		if t, ok := nilOf(r); ok {
			return t
		}
	}
	if isNilVal(r) {
		if t, ok := nilOf(l); ok {
			return t
		}
	}
	if l.Addr != nil && r.Addr != nil && sameAddr(l.Addr, r.Addr) {
		return "true"
	}
	return "(= " + ev.term(l) + " " + ev.term(r) + ")"
}

func (ev *Eval) callExpr(x *ECall) Val {
	s := ev.s
	boolT := types.Typ[types.Bool]
	switch x.Fn {
	case "old":
		o := ev.sub()
		o.mem = ev.old
		o.pending = ev.pending
		return o.freeze(o.eval(x.Args[0]))
	case "len":
		v := ev.eval(x.Args[0])
		switch {
		case v.View != nil:
			return Val{Term: v.View.Len}
		case v.seqElem != nil:
			return Val{Term: s.seqLen(v.seqES, v.Term)}
		case v.Map != nil:
			// as the len instruction: a nil map has length 0
			mt := v.Map.T
			cur := s.load(ev.mem, v.Map.Origin)
			ks, vs := s.sortOf(mt.Key()), s.sortOf(mt.Elem())
			return Val{Term: "(ite " + s.mapPart(ks, vs, "mnil", cur) + " 0 " + s.mapPart(ks, vs, "msize", cur) + ")"}
		case v.mapT != nil:
			ks, vs := s.sortOf(v.mapT.Key()), s.sortOf(v.mapT.Elem())
			return Val{Term: "(ite " + s.mapPart(ks, vs, "mnil", v.Term) + " 0 " + s.mapPart(ks, vs, "msize", v.Term) + ")"}
		}
		if v.T != nil {
			if at, ok := types.Unalias(v.T).Underlying().(*types.Array); ok {
				return Val{K: big.NewInt(at.Len())}
			}
		}
		ev.fail("len of non-sequence")
	case "has", "in":
		m := ev.eval(x.Args[0])
		var mt *types.Map
		var cur string
		if m.Map != nil {
			mt = m.Map.T
			cur = s.load(ev.mem, m.Map.Origin)
		} else if m.mapT != nil {
			mt, cur = m.mapT, m.Term
		} else {
			ev.fail("has() on non-map")
		}
		ks, vs := s.sortOf(mt.Key()), s.sortOf(mt.Elem())
		k := ev.term(ev.coerce(ev.eval(x.Args[1]), mt.Key()))
		return Val{Term: "(and (not " + s.mapPart(ks, vs, "mnil", cur) + ") (select " + s.mapPart(ks, vs, "mhas", cur) + " " + k + "))", T: boolT}
	case "fnid":
		// identity of a function value produced under opt returns_contract
		if len(x.Args) == 1 {
			if cf, ok := ev.eval(x.Args[0]).Fn.(contractFn); ok {
				return Val{Term: cf.id}
			}
		}
		ev.fail("fnid: not a function value with a contract")
	case "isptrto":
		// isptrto(x, T): the dynamic type of interface value x is *T (and x is not nil)
		if len(x.Args) == 2 {
			v := ev.eval(x.Args[0])
			tn := exprString(x.Args[1])
			t := ev.g.parseTypeExpr(tn, ev.typePkg())
			if t == nil {
				ev.fail("isptrto: unknown type %s", tn)
			}
			id := s.typeID(types.NewPointer(t))
			return Val{Term: fmt.Sprintf("(and (not (= %s 0)) (= (ityp %s) %d))", v.Term, v.Term, id), T: boolT}
		}
	case "dynimpl":
		// dynimpl(x, I): the dynamic type of interface value x implements interface I (what x.(I) tests)
		if len(x.Args) == 2 {
			v := ev.eval(x.Args[0])
			tn := exprString(x.Args[1])
			t := ev.g.parseTypeExpr(tn, ev.typePkg())
			if t == nil {
				ev.fail("dynimpl: unknown type %s", tn)
			}
			if _, isIface := types.Unalias(t).Underlying().(*types.Interface); !isIface {
				ev.fail("dynimpl: %s is not an interface", tn)
			}
			fn := s.implementsFn(t)
			return Val{Term: fmt.Sprintf("(and (not (= %s 0)) (%s (ityp %s)))", v.Term, fn, v.Term), T: boolT}
		}
	case "unboxptr":
		// unboxptr(x, T): the *T held by interface value x (meaningful when isptrto(x, T))
		if len(x.Args) == 2 {
			v := ev.eval(x.Args[0])
			tn := exprString(x.Args[1])
			t := ev.g.parseTypeExpr(tn, ev.typePkg())
			if t == nil {
				ev.fail("unboxptr: unknown type %s", tn)
			}
			s.declFun("ival_Int", []string{"Int"}, "Int")
			return Val{Term: "(ival_Int " + v.Term + ")", T: types.NewPointer(t)}
		}
	case "visited":
		// visited(k): the enclosing range-over-map loop has already produced key k
		if ev.resolve != nil && len(x.Args) == 1 {
			if set, ok := ev.resolve("visited"); ok {
				k := ev.term(ev.coerce(ev.eval(x.Args[0]), set.mapT.Key()))
				return Val{Term: "(select " + set.Term + " " + k + ")", T: boolT}
			}
		}
		ev.fail("visited(k) is only meaningful in an invariant of a range-over-map loop")
	case "isnil":
		v := ev.eval(x.Args[0])
		if v.mapT != nil {
			return Val{Term: s.mapPart(s.sortOf(v.mapT.Key()), s.sortOf(v.mapT.Elem()), "mnil", v.Term), T: boolT}
		}
		return Val{Term: ev.ptrEq(v, Val{Term: "0", T: types.Typ[types.UntypedNil]}), T: boolT}
	case "ite":
		c := ev.term(ev.eval(x.Args[0]))
		a, b := ev.eval(x.Args[1]), ev.eval(x.Args[2])
		return Val{Term: ite(c, ev.intTerm(a, b), ev.intTerm(b, a)), T: firstType(a.T, b.T)}
	case "min", "max":
		a, b := ev.eval(x.Args[0]), ev.eval(x.Args[1])
		at, bt := ev.intTerm(a, b), ev.intTerm(b, a)
		if x.Fn == "min" {
			return Val{Term: "(ite (<= " + at + " " + bt + ") " + at + " " + bt + ")"}
		}
		return Val{Term: "(ite (>= " + at + " " + bt + ") " + at + " " + bt + ")"}
	case "held":
		// held(mu) -> lock state of the mutex at that location: 0 free, 1 read, 2 write
		v := ev.eval(x.Args[0])
		if v.lval == nil {
			ev.fail("held() of non-location")
		}
		key := lockKey(v.lval)
		gk := "lock_" + key
		ev.g.ghostSorts[gk] = "(Array Int Int)"
		return Val{Term: "(select " + s.ghostGet(ev.mem, gk, "(Array Int Int)") + " " + v.lval.Ref + ")"}
	case "bor8", "band8":
		// bitwise or / and of two values in [0, 256) (exact bit decomposition; for untyped spec-level terms)
		a, b := ev.eval(x.Args[0]), ev.eval(x.Args[1])
		tk := token.OR
		if x.Fn == "band8" {
			tk = token.AND
		}
		return Val{Term: ev.fe.bitop(tk, ev.intTerm(a, b), ev.intTerm(b, a), 8, false)}
	case "sections":
		// sections(mu) -> how many critical sections on that mutex have been opened so far (ghost counter)
		v := ev.eval(x.Args[0])
		if v.lval == nil {
			ev.fail("sections() of non-location")
		}
		gk := "lock_sect_" + lockKey(v.lval)
		ev.g.ghostSorts[gk] = "(Array Int Int)"
		return Val{Term: "(select " + s.ghostGet(ev.mem, gk, "(Array Int Int)") + " " + v.lval.Ref + ")"}
	case "wide":
		// bv -> unbounded int is not available (no bridge); only constants
		ev.fail("wide() is not supported")
	case "unchanged":
		// unchanged(e): value of e equals its value in the old state
		cur := ev.eval(x.Args[0])
		o := ev.sub()
		o.mem = ev.old
		old := o.eval(x.Args[0])
		return Val{Term: "(= " + ev.term(cur) + " " + o.term(old) + ")", T: boolT}
	case "eqseq":
		// eqseq(a, b): same length and same elements (in range); desugared to a quantifier
		q := &EQuant{Forall: true, Vars: []string{"zzq"}, Sorts: []string{""},
			Body: &EBin{"==>", &EBin{"&&", &EBin{"<=", &ENum{big.NewInt(0)}, &EName{"zzq"}}, &EBin{"<", &EName{"zzq"}, &ECall{"len", []Expr{x.Args[0]}}}},
				&EBin{"==", &EIdx{x.Args[0], &EName{"zzq"}}, &EIdx{x.Args[1], &EName{"zzq"}}}}}
		lenEq := &EBin{"==", &ECall{"len", []Expr{x.Args[0]}}, &ECall{"len", []Expr{x.Args[1]}}}
		return ev.eval(&EBin{"&&", lenEq, q})
	case "alloc":
		// alloc(p): p is an allocated (non-nil) object of its struct type in the current state
		v := ev.eval(x.Args[0])
		pt, ok := types.Unalias(v.T).Underlying().(*types.Pointer)
		if !ok {
			ev.fail("alloc() of non-pointer")
		}
		k := "next_" + sortID(s.sortOf(pt.Elem()))
		t := ev.term(v)
		return Val{Term: "(and (< 0 " + t + ") (< " + t + " " + s.ghostGet(ev.mem, k, "Int") + "))", T: boolT}
	case "cat":
		// cat(a, b): the concatenation of two Go arrays as a sequence (ground chain, the same term
		// the engine builds for append(a[:], b[:]...))
		var parts []Val
		var elemT types.Type
		for _, a := range x.Args {
			v := ev.eval(a)
			at, ok := types.Unalias(v.T).Underlying().(*types.Array)
			if !ok {
				ev.fail("cat() of non-array")
			}
			elemT = at.Elem()
			parts = append(parts, v)
		}
		es := s.sortOf(elemT)
		arr := "((as const (Array Int " + es + ")) " + s.zero(elemT) + ")"
		k := int64(0)
		for _, v := range parts {
			at := types.Unalias(v.T).Underlying().(*types.Array)
			for j := int64(0); j < at.Len(); j++ {
				arr = fmt.Sprintf("(store %s %d %s)", arr, k, s.arrSelect(at, ev.term(v), fmt.Sprint(j)))
				k++
			}
		}
		return Val{T: types.NewSlice(elemT), Term: s.mkSeq(es, fmt.Sprint(k), arr), seqElem: elemT, seqES: es}
	case "seq":
		// seq(a): the sequence of the elements of Go array a
		v := ev.eval(x.Args[0])
		at, ok := types.Unalias(v.T).Underlying().(*types.Array)
		if !ok {
			ev.fail("seq() of non-array")
		}
		es := s.sortOf(at.Elem())
		return Val{T: types.NewSlice(at.Elem()), Term: s.mkSeq(es, fmt.Sprint(at.Len()), s.arrToSMT(at, ev.term(v))), seqElem: at.Elem(), seqES: es}
	case "pow2":
		// 2^k for 0 <= k < 64, saturating at 2^64 above (closed form, no axioms)
		k := ev.intTerm(ev.eval(x.Args[0]), Val{})
		res := pow2s(64)
		for i := 63; i >= 0; i-- {
			res = fmt.Sprintf("(ite (= %s %d) %s %s)", k, i, pow2s(i), res)
		}
		return Val{Term: res}
	case "ispow2":
		v := ev.eval(x.Args[0])
		w, _, ok := intInfo(v.T)
		if !ok {
			w = 64
		}
		var ds []string
		for k := 0; k < w; k++ {
			ds = append(ds, "(= "+ev.term(v)+" "+s.num(pow2(k), firstType(v.T, types.Typ[types.Uint64]))+")")
		}
		return Val{Term: or(ds...), T: boolT}
	}
	// pure function-typed parameter applied in a contract
	if fv, ok := ev.env[x.Fn]; ok && ev.fe.top.ct != nil {
		if _, isSig := types.Unalias(fv.T).Underlying().(*types.Signature); isSig {
			sig := types.Unalias(fv.T).Underlying().(*types.Signature)
			fn := "pf_" + mangle(ev.fe.top.fnName()) + "_" + x.Fn
			var as, sorts []string
			for i, a := range x.Args {
				pt := sig.Params().At(i).Type()
				as = append(as, ev.term(ev.coerce(ev.eval(a), pt)))
				sorts = append(sorts, s.sortOf(pt))
			}
			rt := sig.Results().At(0).Type()
			s.declFun(fn, sorts, s.sortOf(rt))
			return ev.valueOf("("+fn+" "+strings.Join(as, " ")+")", rt)
		}
	}
	if _, ok := ev.g.db.UFuns[x.Fn]; ok {
		return ev.specCall(x.Fn, x.Args)
	}
	if _, ok := ev.g.db.Defines[x.Fn]; ok {
		return ev.specCall(x.Fn, x.Args)
	}
	// struct constructor T(f1, f2, ...) with the fields in declaration order
	if t := ev.lookupType(x.Fn); t != nil {
		if st, ok := structOf(t); ok && st.NumFields() == len(x.Args) && len(x.Args) != 1 {
			var fs []string
			for i, a := range x.Args {
				fs = append(fs, ev.term(ev.coerce(ev.eval(a), st.Field(i).Type())))
			}
			return Val{T: t, Term: "(mk_" + s.sortOf(t) + " " + strings.Join(fs, " ") + ")"}
		}
	}
	// array constructor T(e0, ..., eN-1) for small Go array types
	if t := ev.lookupType(x.Fn); t != nil {
		if at, ok := types.Unalias(t).Underlying().(*types.Array); ok && smallArr(at) && int64(len(x.Args)) == at.Len() && at.Len() >= 1 {
			var fs []string
			for _, a := range x.Args {
				fs = append(fs, ev.term(ev.coerce(ev.eval(a), at.Elem())))
			}
			return Val{T: t, Term: "(mk_" + s.arrSort(at) + " " + strings.Join(fs, " ") + ")"}
		}
	}
	// type conversion T(e) of integer types is the identity on values
	if t := ev.lookupType(x.Fn); t != nil && len(x.Args) == 1 {
		v := ev.eval(x.Args[0])
		if v.K != nil {
			return Val{T: t, Term: ev.s.num(v.K, t)}
		}
		v.T = t
		return v
	}
	switch x.Fn {
	case "uint64", "uint8", "int", "int64", "uint32":
		return ev.eval(x.Args[0])
	}
	ev.fail("unknown function %q", x.Fn)
	return Val{}
}

// freeze turns a value read in this evaluator's memory into a pure value
// (no location, no lazily read view), so that it can be used in another state.
func (ev *Eval) freeze(v Val) Val {
	switch {
	case v.View != nil:
		if v.View.IsStr {
			return v
		}
		es := ev.s.sortOf(v.View.Elem)
		return Val{T: v.T, Term: ev.s.viewSeq(ev.mem, v.View), seqElem: v.View.Elem, seqES: es}
	case v.Map != nil:
		return Val{T: v.T, Term: ev.s.load(ev.mem, v.Map.Origin), mapT: v.Map.T}
	}
	v.lval = nil
	return v
}

func firstType(a, b types.Type) types.Type {
	if a != nil {
		return a
	}
	return b
}

func (ev *Eval) seqLenOf(v Val) string {
	switch {
	case v.View != nil:
		return v.View.Len
	case v.seqElem != nil:
		return ev.s.seqLen(v.seqES, v.Term)
	}
	ev.fail("not a sequence")
	return ""
}

// specSort resolves a sort name used in ufun/define/quantifier declarations.
func (ev *Eval) specSort(name, pkgPath string) (string, types.Type) {
	return ev.g.specSort(ev.s, name, pkgPath, ev.pkg)
}

// checkSortAliases: an alias name declared in several contract files must denote one Go type
// (names are global; a clash silently retypes the other package's spec functions).
func (g *Gen) checkSortAliases() []string {
	var errs []string
	for _, name := range sortedKeys(g.db.SortDecls) {
		var first types.Type
		for _, d := range g.db.SortDecls[name] {
			pk := g.typesPkg(d[1])
			if pk == nil {
				continue
			}
			t := g.parseTypeExpr(d[0], pk)
			if t == nil {
				continue
			}
			if first == nil {
				first = t
			} else if !types.Identical(first, t) {
				errs = append(errs, fmt.Sprintf("sort alias %s is declared as %s and as %s", name, types.TypeString(first, nil), types.TypeString(t, nil)))
			}
		}
	}
	return errs
}

func (g *Gen) specSort(s *Sess, name, pkgPath string, cur *types.Package) (string, types.Type) {
	switch name {
	case "int":
		return "Int", nil
	case "bool":
		return "Bool", types.Typ[types.Bool]
	}
	if al, ok := g.db.SortAlias[name]; ok {
		return g.specSort(s, al[0], al[1], cur)
	}
	var pk *types.Package
	if pkgPath != "" {
		pk = g.typesPkg(pkgPath)
	}
	if pk == nil {
		pk = cur
	}
	if pk != nil {
		if t := g.parseTypeExpr(name, pk); t != nil {
			return s.sortOf(t), t
		}
	}
	// search all loaded packages for a unique type name
	for _, p := range g.allTypesPkgs() {
		if o, ok := p.Scope().Lookup(name).(*types.TypeName); ok {
			return s.sortOf(o.Type()), o.Type()
		}
	}
	panic(evalErr(fmt.Sprintf("unknown sort %q", name)))
}

// specCall applies a spec function (ufun or define), declaring it on demand.
func (ev *Eval) specCall(name string, args []Expr) Val {
	s := ev.s
	var argSorts []string
	var argTypes []types.Type
	var retSort string
	var retType types.Type
	if uf := ev.g.db.UFuns[name]; uf != nil {
		for _, a := range uf.Args {
			srt, gt := ev.g.specSort(s, a, uf.PkgPath, ev.pkg)
			argSorts = append(argSorts, srt)
			argTypes = append(argTypes, gt)
		}
		retSort, retType = ev.g.specSort(s, uf.Ret, uf.PkgPath, ev.pkg)
		s.declFun("u_"+name, argSorts, retSort)
		s.usedSpec[name] = true
	} else {
		d := ev.g.db.Defines[name]
		for _, a := range d.Sorts {
			srt, gt := ev.g.specSort(s, a, d.PkgPath, ev.pkg)
			argSorts = append(argSorts, srt)
			argTypes = append(argTypes, gt)
		}
		retSort, retType = ev.g.specSort(s, d.Ret, d.PkgPath, ev.pkg)
		ev.declareDefine(d, argSorts, argTypes, retSort)
	}
	if len(args) != len(argSorts) {
		ev.fail("%s expects %d arguments", name, len(argSorts))
	}
	var ts []string
	for i, a := range args {
		v := ev.eval(a)
		if v.K != nil {
			if argTypes[i] != nil {
				ts = append(ts, s.num(v.K, argTypes[i]))
			} else {
				ts = append(ts, numInt(v.K))
			}
			continue
		}
		ts = append(ts, ev.term(v))
	}
	t := "u_" + name
	if len(ts) > 0 {
		t = "(u_" + name + " " + strings.Join(ts, " ") + ")"
	}
	return ev.valueOf(t, retType)
}

func (ev *Eval) declareDefine(d *Define, argSorts []string, argTypes []types.Type, retSort string) {
	s := ev.s
	if s.funSeen["u_"+d.Name] {
		return
	}
	s.funSeen["u_"+d.Name] = true
	s.usedSpec[d.Name] = true
	sub := &Eval{fe: ev.fe, s: s, g: ev.g, mem: NewMem(), old: NewMem(), env: map[string]Val{}, bound: map[string]Val{}, pkg: ev.pkg, calleePkg: d.PkgPath}
	var ps []string
	for i, p := range d.Params {
		n := "a_" + p
		ps = append(ps, "("+n+" "+argSorts[i]+")")
		sub.bound[p] = sub.wrapSpec(n, argSorts[i], argTypes[i])
	}
	kw := "define-fun"
	if d.Rec {
		kw = "define-fun-rec"
	}
	done := false
	defer func() {
		if !done {
			// the body failed to evaluate: declare the symbol uninterpreted so the scripts stay well-formed;
			// the evaluation error surfaces as the function's #bind failure
			s.funDecl = append(s.funDecl, fmt.Sprintf("(declare-fun u_%s (%s) %s)", d.Name, strings.Join(argSorts, " "), retSort))
			ev.fe.top.bindErrs = append(ev.fe.top.bindErrs, "define "+d.Name+": body cannot be evaluated")
		}
	}()
	body := sub.term(sub.eval(d.Body))
	done = true
	s.funDecl = append(s.funDecl, fmt.Sprintf("(%s u_%s (%s) %s %s)", kw, d.Name, strings.Join(ps, " "), retSort, body))
}

// ---------------------------------------------------------------- names at loop heads

func (fe *FnEnc) debugRefs() map[string][]*ssa.DebugRef {
	if fe.dbg != nil {
		return fe.dbg
	}
	fe.dbg = map[string][]*ssa.DebugRef{}
	for _, b := range fe.fn.Blocks {
		for _, ins := range b.Instrs {
			if d, ok := ins.(*ssa.DebugRef); ok {
				if id, ok := d.Expr.(interface{ String() string }); ok {
					_ = id
				}
				if obj := d.Object(); obj != nil {
					fe.dbg[obj.Name()] = append(fe.dbg[obj.Name()], d)
				}
			}
		}
	}
	return fe.dbg
}

func domDepth(b *ssa.BasicBlock) int {
	n := 0
	for x := b.Idom(); x != nil; x = x.Idom() {
		n++
	}
	return n
}

// pointResolver resolves source-level names at instruction idx of block b: the last DebugRef of the
// name that is earlier in b or in a dominating block; locals living in an Alloc are read from memory.
func (fe *FnEnc) pointResolver(b *ssa.BasicBlock, idx int, ev *Eval) func(string) (Val, bool) {
	return func(name string) (Val, bool) {
		for _, bb := range fe.fn.Blocks {
			if bb != b && !bb.Dominates(b) {
				continue
			}
			for _, ins := range bb.Instrs {
				if al, ok := ins.(*ssa.Alloc); ok && al.Comment == name {
					if v, ok := fe.vals[al]; ok && v.Addr != nil {
						return ev.readAddr(v.Addr, v.Addr.elemType()), true
					}
				}
			}
		}
		var best *ssa.DebugRef
		bestDepth, bestIdx := -1, -1
		for _, d := range fe.debugRefs()[name] {
			db := d.Block()
			di := -1
			for i, ins := range db.Instrs {
				if ins == ssa.Instruction(d) {
					di = i
				}
			}
			if db == b {
				if di < idx && (bestDepth < 1<<30 || di > bestIdx) {
					best, bestDepth, bestIdx = d, 1<<30, di
				}
				continue
			}
			if !db.Dominates(b) || bestDepth == 1<<30 {
				continue
			}
			if dd := domDepth(db); dd > bestDepth || (dd == bestDepth && di > bestIdx) {
				best, bestDepth, bestIdx = d, dd, di
			}
		}
		// a phi named like the variable (at the head of b or of a dominating block) is a definition too
		var bestPhi *ssa.Phi
		phiDepth := -1
		for _, bb := range fe.fn.Blocks {
			if bb != b && !bb.Dominates(b) {
				continue
			}
			for _, ins := range bb.Instrs {
				p, ok := ins.(*ssa.Phi)
				if !ok {
					break
				}
				if p.Comment == name {
					dd := domDepth(bb)
					if bb == b {
						dd = 1 << 29
					}
					if dd > phiDepth {
						bestPhi, phiDepth = p, dd
					}
				}
			}
		}
		if bestPhi != nil && (best == nil || (bestDepth != 1<<30 && phiDepth > bestDepth)) {
			if v, ok := fe.vals[bestPhi]; ok {
				return v, true
			}
		}
		if best != nil {
			if best.IsAddr {
				a := fe.ptrAddr(fe.val(best.X))
				return ev.readAddr(a, a.elemType()), true
			}
			if v, ok := fe.vals[best.X]; ok {
				return v, true
			}
			switch best.X.(type) {
			case *ssa.Parameter, *ssa.Const:
				return fe.val(best.X), true
			}
		}
		return Val{}, false
	}
}

// loopResolver resolves source-level names at loop header h.
func (fe *FnEnc) loopResolver(h *ssa.BasicBlock, over map[*ssa.Phi]Val, ev *Eval) func(string) (Val, bool) {
	return func(name string) (Val, bool) {
		if name == "visited" {
			for _, ins := range h.Instrs {
				if nx, ok := ins.(*ssa.Next); ok {
					if rg, ok := nx.Iter.(*ssa.Range); ok {
						if it, ok := fe.vals[rg]; ok && len(it.Tup) == 1 && it.Tup[0].Map != nil {
							gk, srt := fe.iterKey(rg, it.Tup[0].Map)
							return Val{Term: fe.s.ghostGet(ev.mem, gk, srt), mapT: it.Tup[0].Map.T}, true
						}
					}
				}
			}
			return Val{}, false
		}
		for _, ins := range h.Instrs {
			p, ok := ins.(*ssa.Phi)
			if !ok {
				break
			}
			if p.Comment == name {
				if over != nil {
					if v, ok := over[p]; ok {
						return v, true
					}
				}
				return fe.vals[p], true
			}
		}
		{
			// a local living in an Alloc (named result, address-taken variable)
			for _, b := range fe.fn.Blocks {
				if b != h && !b.Dominates(h) {
					continue
				}
				for _, ins := range b.Instrs {
					if al, ok := ins.(*ssa.Alloc); ok && al.Comment == name {
						if v, ok := fe.vals[al]; ok && v.Addr != nil {
							return ev.readAddr(v.Addr, v.Addr.elemType()), true
						}
					}
				}
			}
		}
		// last dominating DebugRef
		var best *ssa.DebugRef
		bestDepth := -1
		for _, d := range fe.debugRefs()[name] {
			b := d.Block()
			if b == h || !b.Dominates(h) {
				continue
			}
			if dd := domDepth(b); dd >= bestDepth {
				best, bestDepth = d, dd
			}
		}
		// a variable last changed by an earlier loop is that loop's phi (in a block dominating h), which is
		// more recent than a reference in a block above it
		var bestPhi *ssa.Phi
		phiDepth := -1
		for _, b := range fe.fn.Blocks {
			if b == h || !b.Dominates(h) {
				continue
			}
			for _, ins := range b.Instrs {
				p, ok := ins.(*ssa.Phi)
				if !ok {
					break
				}
				if p.Comment == name {
					if dd := domDepth(b); dd > phiDepth {
						bestPhi, phiDepth = p, dd
					}
				}
			}
		}
		if bestPhi != nil && (best == nil || phiDepth > bestDepth) {
			if v, ok := fe.vals[bestPhi]; ok {
				return v, true
			}
		}
		if best != nil {
			if best.IsAddr {
				a := fe.ptrAddr(fe.val(best.X))
				return ev.readAddr(a, a.elemType()), true
			}
			if v, ok := fe.vals[best.X]; ok {
				return v, true
			}
			if _, isP := best.X.(*ssa.Parameter); isP {
				return fe.val(best.X), true
			}
			if _, isC := best.X.(*ssa.Const); isC {
				return fe.val(best.X), true
			}
		}
		return Val{}, false
	}
}

func (fe *FnEnc) loopEnv() map[string]Val {
	if fe.top == fe {
		return fe.paramVals
	}
	// inlined function: parameter names from its own contract (if any) else source names;
	// names of the enclosing contract stay visible (its "loop *" clauses are evaluated here too)
	env := map[string]Val{}
	if fe.g.contractFor(fe.fn) == nil {
		for k, v := range fe.top.paramVals {
			env[k] = v
		}
	}
	for _, p := range fe.fn.Params {
		env[p.Name()] = fe.vals[p]
	}
	if ct := fe.g.contractFor(fe.fn); ct != nil {
		var args []Val
		for _, p := range fe.fn.Params {
			args = append(args, fe.vals[p])
		}
		for k, v := range fe.bindNames(ct, ct.Recv != "", args) {
			env[k] = v
		}
	}
	return env
}

func (fe *FnEnc) evalAtLoop(h *ssa.BasicBlock, cl Clause, over map[*ssa.Phi]Val) string {
	ev := fe.newEval(fe.mem, fe.top.entryMem, fe.loopEnv())
	ev.resolve = fe.loopResolver(h, over, ev)
	return ev.evalBool(cl.E)
}

func (fe *FnEnc) evalAtLoopAssume(h *ssa.BasicBlock, cl Clause) string {
	ev := fe.newEval(fe.mem, fe.top.entryMem, fe.loopEnv())
	ev.resolve = fe.loopResolver(h, nil, ev)
	return ev.evalAssume(cl.E)
}

func (fe *FnEnc) evalAtLoopTerm(h *ssa.BasicBlock, cl Clause, over map[*ssa.Phi]Val) string {
	ev := fe.newEval(fe.mem, fe.top.entryMem, fe.loopEnv())
	ev.resolve = fe.loopResolver(h, over, ev)
	return ev.evalTerm(cl.E)
}

// parseTypeExpr resolves a small Go type expression ([]T, [N]T, *T, map[K]V,
// pkg.T, T) against package pk and its imports.
func (g *Gen) parseTypeExpr(x string, pk *types.Package) types.Type {
	x = strings.TrimSpace(x)
	switch {
	case strings.HasPrefix(x, "[]"):
		if e := g.parseTypeExpr(x[2:], pk); e != nil {
			return types.NewSlice(e)
		}
		return nil
	case strings.HasPrefix(x, "*"):
		if e := g.parseTypeExpr(x[1:], pk); e != nil {
			return types.NewPointer(e)
		}
		return nil
	case strings.HasPrefix(x, "["):
		i := strings.Index(x, "]")
		if i < 0 {
			return nil
		}
		var n int64
		if _, err := fmt.Sscanf(x[1:i], "%d", &n); err != nil {
			return nil
		}
		if e := g.parseTypeExpr(x[i+1:], pk); e != nil {
			return types.NewArray(e, n)
		}
		return nil
	case strings.HasPrefix(x, "map["):
		depth := 0
		for i := 3; i < len(x); i++ {
			if x[i] == '[' {
				depth++
			} else if x[i] == ']' {
				depth--
				if depth == 0 {
					k := g.parseTypeExpr(x[4:i], pk)
					v := g.parseTypeExpr(x[i+1:], pk)
					if k != nil && v != nil {
						return types.NewMap(k, v)
					}
					return nil
				}
			}
		}
		return nil
	}
	if i := strings.Index(x, "."); i >= 0 {
		for _, imp := range pk.Imports() {
			if imp.Name() == x[:i] {
				if o, ok := imp.Scope().Lookup(x[i+1:]).(*types.TypeName); ok {
					return o.Type()
				}
			}
		}
		for _, p := range g.pkgs {
			if p.Types != nil && p.Types.Name() == x[:i] {
				if o, ok := p.Types.Scope().Lookup(x[i+1:]).(*types.TypeName); ok {
					return o.Type()
				}
			}
		}
		return nil
	}
	if o := types.Universe.Lookup(x); o != nil {
		if tn, ok := o.(*types.TypeName); ok {
			return tn.Type()
		}
	}
	if o, ok := pk.Scope().Lookup(x).(*types.TypeName); ok {
		return o.Type()
	}
	// dot-imports
	for _, imp := range pk.Imports() {
		if o, ok := imp.Scope().Lookup(x).(*types.TypeName); ok && o.Exported() {
			return o.Type()
		}
	}
	return nil
}

// constRangeQuant recognises "forall v :: lo <= v && v < hi ==> body" (v an int, lo/hi literals,
// at most 64 instances, no explicit trigger).
func constRangeQuant(x *EQuant) (lo, hi int64, body Expr, ok bool) {
	if !x.Forall || len(x.Vars) != 1 || len(x.Pats) > 0 || (x.Sorts[0] != "" && x.Sorts[0] != "int") {
		return
	}
	imp, isImp := x.Body.(*EBin)
	if !isImp || imp.Op != "==>" {
		return
	}
	cj, isAnd := imp.L.(*EBin)
	if !isAnd || cj.Op != "&&" {
		return
	}
	v := x.Vars[0]
	isV := func(e Expr) bool { n, ok := e.(*EName); return ok && n.Name == v }
	num := func(e Expr) (int64, bool) {
		n, ok := e.(*ENum)
		if !ok || !n.V.IsInt64() {
			return 0, false
		}
		return n.V.Int64(), true
	}
	l, lok := cj.L.(*EBin)
	r, rok := cj.R.(*EBin)
	if !lok || !rok {
		return
	}
	a, aok := num(l.L)
	if !(aok && l.Op == "<=" && isV(l.R)) {
		return
	}
	b, bok := num(r.R)
	if !(bok && isV(r.L) && (r.Op == "<" || r.Op == "<=")) {
		return
	}
	if r.Op == "<=" {
		b++
	}
	if b-a > 64 || b < a {
		return
	}
	return a, b, imp.R, true
}
