package main

// Session: per-function SMT context (sort/function declarations, script
// lines, fresh names).  Sorts depend on the arithmetic mode, so every
// function under contract gets its own session.

import (
	"fmt"
	"go/types"
	"math/big"
	"regexp"
	"sort"
	"strings"
)

type Sess struct {
	g            *Gen
	mode         string // "int" | "bv"
	sortDecl     []string
	sortSeen     map[string]bool
	funDecl      []string
	funSeen      map[string]bool
	axioms       []string // global axioms (after funDecl)
	lines        []string // ordered declarations + assertions
	nfresh       int
	structs      map[string]*types.Struct // sort name -> struct
	structT      map[string]types.Type
	typeIDs      map[string]int
	typeObjs     map[int]types.Type
	ifaceFns     map[int]*types.Interface
	notes        []string // unsupported / havocked notes
	notesSet     map[string]bool
	heapSort     map[string]string // heap key -> sort of the array
	specBusy     map[string]bool
	lemmaOK      map[string]bool
	usedSpec     map[string]bool
	finalized    bool
	provingLemma *Axiom
	usedAxioms   []string
	arrCons      map[string][]string // named small-array values with known element terms
	uses         map[string]bool // manual axioms / lemmas requested by the contract or lemma under proof
	heapOwner    map[string]string
	axiomErrs    []string
	nq           int
	heapElemT    map[string]types.Type
}

func (s *Sess) setUses(names []string) {
	s.uses = map[string]bool{}
	for _, n := range names {
		s.uses[n] = true
	}
}

func NewSess(g *Gen, mode string) *Sess {
	s := &Sess{g: g, mode: mode, sortSeen: map[string]bool{}, funSeen: map[string]bool{}, structs: map[string]*types.Struct{},
		structT: map[string]types.Type{}, typeIDs: map[string]int{}, notesSet: map[string]bool{}, heapSort: map[string]string{},
		specBusy: map[string]bool{}, lemmaOK: map[string]bool{}, usedSpec: map[string]bool{}, heapOwner: map[string]string{}, heapElemT: map[string]types.Type{}}
	s.sortDecl = append(s.sortDecl, "(declare-sort Str 0)", "(declare-sort Flt 0)")
	s.declFun("str_empty", nil, "Str")
	s.declFun("ityp", []string{"Int"}, "Int")
	// truncated division helpers for signed ints
	s.funDecl = append(s.funDecl,
		"(define-fun tdiv ((a Int) (b Int)) Int (ite (>= a 0) (ite (> b 0) (div a b) (- (div a (- b)))) (ite (> b 0) (- (div (- a) b)) (div (- a) (- b)))))",
		"(define-fun tmod ((a Int) (b Int)) Int (- a (* b (tdiv a b))))")
	return s
}

func (s *Sess) note(f string, a ...interface{}) {
	m := fmt.Sprintf(f, a...)
	if !s.notesSet[m] {
		s.notesSet[m] = true
		s.notes = append(s.notes, m)
	}
}

var reNonId = regexp.MustCompile(`[^A-Za-z0-9_]+`)

func mangle(x string) string {
	x = strings.ReplaceAll(x, "github.com/protolambda/zrnt/eth2/", "")
	x = strings.ReplaceAll(x, "github.com/protolambda/", "")
	x = reNonId.ReplaceAllString(x, "_")
	return strings.Trim(x, "_")
}

func (s *Sess) fresh(prefix, sort string) string {
	s.nfresh++
	n := fmt.Sprintf("%s_%d", prefix, s.nfresh)
	s.lines = append(s.lines, fmt.Sprintf("(declare-const %s %s)", n, sort))
	return n
}

func (s *Sess) assert(t string) {
	s.lines = append(s.lines, "(assert "+t+")")
}

// name gives term a fresh name (keeps terms linear).
func (s *Sess) name(prefix, sort, term string) string {
	if isAtom(term) {
		return term
	}
	n := s.fresh(prefix, sort)
	s.assert("(= " + n + " " + term + ")")
	if strings.HasPrefix(term, "(mk_Arr") {
		// remember the elements of a named small-array value: later stores / loads at constant
		// indices work on the element terms directly (flat constructors, no selector chains)
		if els := splitArgs(term); len(els) > 0 {
			if s.arrCons == nil {
				s.arrCons = map[string][]string{}
			}
			s.arrCons[n] = els
		}
	}
	return n
}

// splitArgs returns the top-level arguments of "(f a1 ... an)".
func splitArgs(t string) []string {
	if len(t) < 2 || t[0] != '(' || t[len(t)-1] != ')' {
		return nil
	}
	body := t[1 : len(t)-1]
	var out []string
	depth, start := 0, -1
	for i := 0; i <= len(body); i++ {
		if i == len(body) || (body[i] == ' ' && depth == 0) {
			if start >= 0 {
				out = append(out, body[start:i])
				start = -1
			}
			continue
		}
		if start < 0 {
			start = i
		}
		switch body[i] {
		case '(':
			depth++
		case ')':
			depth--
		}
	}
	if len(out) < 1 {
		return nil
	}
	return out[1:]
}

// arrElems: the element terms of small-array value x if it is a constructor term or a name bound to one.
func (s *Sess) arrElems(u *types.Array, x string) []string {
	if els, ok := s.arrCons[x]; ok && int64(len(els)) == u.Len() {
		return els
	}
	if strings.HasPrefix(x, "(mk_"+s.arrSort(u)+" ") {
		if els := splitArgs(x); int64(len(els)) == u.Len() {
			return els
		}
	}
	return nil
}

func isAtom(t string) bool {
	return !strings.ContainsAny(t, " (")
}

func (s *Sess) declFun(name string, args []string, ret string) {
	if s.funSeen[name] {
		return
	}
	s.funSeen[name] = true
	s.funDecl = append(s.funDecl, fmt.Sprintf("(declare-fun %s (%s) %s)", name, strings.Join(args, " "), ret))
}

func intWidth(b *types.Basic) (w int, signed bool, ok bool) {
	switch b.Kind() {
	case types.Int8:
		return 8, true, true
	case types.Int16:
		return 16, true, true
	case types.Int32, types.UntypedRune:
		return 32, true, true
	case types.Int64, types.Int, types.UntypedInt:
		return 64, true, true
	case types.Uint8:
		return 8, false, true
	case types.Uint16:
		return 16, false, true
	case types.Uint32:
		return 32, false, true
	case types.Uint64, types.Uint, types.Uintptr:
		return 64, false, true
	}
	return 0, false, false
}

func intInfo(t types.Type) (w int, signed bool, ok bool) {
	if t == nil {
		return 0, false, false
	}
	b, isB := t.Underlying().(*types.Basic)
	if !isB {
		return 0, false, false
	}
	return intWidth(b)
}

func pow2(n int) *big.Int { return new(big.Int).Lsh(big.NewInt(1), uint(n)) }

func pow2s(n int) string { return pow2(n).String() }

func (s *Sess) intSort(w int) string {
	if s.mode == "bv" {
		return fmt.Sprintf("(_ BitVec %d)", w)
	}
	return "Int"
}

// sortOf maps a Go type to an SMT sort, declaring datatypes as needed.
func (s *Sess) sortOf(t types.Type) string {
	t = types.Unalias(t)
	switch u := t.(type) {
	case *types.Named:
		if st, ok := u.Underlying().(*types.Struct); ok {
			return s.structSort(mangle(types.TypeString(u, nil)), st, u)
		}
		return s.sortOf(u.Underlying())
	case *types.Basic:
		if w, _, ok := intWidth(u); ok {
			return s.intSort(w)
		}
		switch {
		case u.Info()&types.IsBoolean != 0:
			return "Bool"
		case u.Info()&types.IsString != 0:
			return "Str"
		case u.Info()&types.IsFloat != 0:
			return "Flt"
		case u.Kind() == types.UnsafePointer, u.Kind() == types.UntypedNil:
			return "Int"
		}
		return "Int"
	case *types.Struct:
		return s.structSort("anon_"+mangle(u.String()), u, u)
	case *types.Pointer, *types.Interface, *types.Signature, *types.Chan:
		return "Int"
	case *types.Slice:
		return s.seqSort(s.sortOf(u.Elem()))
	case *types.Array:
		return s.arrSort(u)
	case *types.Map:
		return s.mapSort(s.sortOf(u.Key()), s.sortOf(u.Elem()))
	case *types.Tuple:
		if u.Len() == 1 {
			return s.sortOf(u.At(0).Type())
		}
		return "Int"
	case *types.TypeParam:
		return "Int"
	}
	return "Int"
}

func (s *Sess) structSort(name string, st *types.Struct, orig types.Type) string {
	sn := "S_" + name
	if s.sortSeen[sn] {
		return sn
	}
	s.sortSeen[sn] = true
	s.structs[sn] = st
	s.structT[sn] = orig
	var fs []string
	for i := 0; i < st.NumFields(); i++ {
		fs = append(fs, fmt.Sprintf("(%s %s)", fieldAcc(sn, st, i), s.sortOf(st.Field(i).Type())))
	}
	s.sortDecl = append(s.sortDecl, fmt.Sprintf("(declare-datatypes ((%s 0)) (((mk_%s %s))))", sn, sn, strings.Join(fs, " ")))
	return sn
}

func fieldAcc(sn string, st *types.Struct, i int) string {
	return fmt.Sprintf("f_%s_%s", sn, st.Field(i).Name())
}

func sortID(srt string) string {
	if srt == "Int" || srt == "Bool" || srt == "Str" {
		return srt
	}
	return mangle(srt)
}

func (s *Sess) seqSort(elem string) string {
	id := sortID(elem)
	sn := "Seq_" + id
	if !s.sortSeen[sn] {
		s.sortSeen[sn] = true
		s.sortDecl = append(s.sortDecl, fmt.Sprintf("(declare-datatypes ((%s 0)) (((mkseq_%s (len_%s Int) (arr_%s (Array Int %s)))))) ", sn, id, id, id, elem))
	}
	return sn
}

func (s *Sess) mapSort(k, v string) string {
	id := sortID(k) + "_" + sortID(v)
	sn := "Map_" + id
	if !s.sortSeen[sn] {
		s.sortSeen[sn] = true
		s.sortDecl = append(s.sortDecl, fmt.Sprintf("(declare-datatypes ((%s 0)) (((mkmap_%s (mnil_%s Bool) (mhas_%s (Array %s Bool)) (mval_%s (Array %s %s)) (msize_%s Int)))))",
			sn, id, id, id, k, id, k, v, id))
	}
	return sn
}

// seq helpers (elem = element sort)
func (s *Sess) seqLen(elem, x string) string {
	s.seqSort(elem)
	return "(len_" + sortID(elem) + " " + x + ")"
}
func (s *Sess) seqArr(elem, x string) string {
	s.seqSort(elem)
	return "(arr_" + sortID(elem) + " " + x + ")"
}
func (s *Sess) mkSeq(elem, l, a string) string {
	s.seqSort(elem)
	return "(mkseq_" + sortID(elem) + " " + l + " " + a + ")"
}

func (s *Sess) mapPart(k, v, part, x string) string {
	s.mapSort(k, v)
	return "(" + part + "_" + sortID(k) + "_" + sortID(v) + " " + x + ")"
}
func (s *Sess) mkMap(k, v, isnil, has, val, size string) string {
	s.mapSort(k, v)
	return "(mkmap_" + sortID(k) + "_" + sortID(v) + " " + isnil + " " + has + " " + val + " " + size + ")"
}

func (s *Sess) num(v *big.Int, t types.Type) string {
	if s.mode == "bv" {
		w, _, ok := intInfo(t)
		if !ok {
			w = 64
		}
		m := new(big.Int).Mod(v, pow2(w))
		return fmt.Sprintf("(_ bv%s %d)", m.String(), w)
	}
	return numInt(v)
}

func numInt(v *big.Int) string {
	if v.Sign() < 0 {
		return "(- " + new(big.Int).Neg(v).String() + ")"
	}
	return v.String()
}

// zero value of a Go type.
func (s *Sess) zero(t types.Type) string {
	t = types.Unalias(t)
	srt := s.sortOf(t)
	switch u := t.Underlying().(type) {
	case *types.Basic:
		switch srt {
		case "Bool":
			return "false"
		case "Str":
			return "str_empty"
		case "Flt":
			s.declFun("flt_zero", nil, "Flt")
			return "flt_zero"
		}
		return s.num(big.NewInt(0), t)
	case *types.Struct:
		var fs []string
		for i := 0; i < u.NumFields(); i++ {
			fs = append(fs, s.zero(u.Field(i).Type()))
		}
		if len(fs) == 0 {
			return "mk_" + srt
		}
		return "(mk_" + srt + " " + strings.Join(fs, " ") + ")"
	case *types.Slice:
		es := s.sortOf(u.Elem())
		return s.mkSeq(es, "0", "((as const (Array Int "+es+")) "+s.zero(u.Elem())+")")
	case *types.Array:
		es := s.sortOf(u.Elem())
		if smallArr(u) {
			z := s.zero(u.Elem())
			var fs []string
			for i := int64(0); i < u.Len(); i++ {
				fs = append(fs, z)
			}
			if len(fs) == 0 {
				return "mk_" + s.arrSort(u)
			}
			return "(mk_" + s.arrSort(u) + " " + strings.Join(fs, " ") + ")"
		}
		return "((as const (Array Int " + es + ")) " + s.zero(u.Elem()) + ")"
	case *types.Map:
		ks, vs := s.sortOf(u.Key()), s.sortOf(u.Elem())
		return s.mkMap(ks, vs, "true", "((as const (Array "+ks+" Bool)) false)", "((as const (Array "+ks+" "+vs+")) "+s.zero(u.Elem())+")", "0")
	}
	return "0"
}

// rangeFact returns a well-typedness fact about term x of Go type t ("" if none).
func (s *Sess) rangeFact(t types.Type, x string) string {
	if s.mode == "bv" {
		return ""
	}
	t = types.Unalias(t)
	switch u := t.Underlying().(type) {
	case *types.Basic:
		if w, signed, ok := intWidth(u); ok {
			if signed {
				return fmt.Sprintf("(and (<= (- %s) %s) (< %s %s))", pow2s(w-1), x, x, pow2s(w-1))
			}
			return fmt.Sprintf("(and (<= 0 %s) (< %s %s))", x, x, pow2s(w))
		}
	case *types.Slice:
		l := s.seqLen(s.sortOf(u.Elem()), x)
		return "(and (<= 0 " + l + ") (< " + l + " 9223372036854775808))"
	case *types.Pointer, *types.Interface:
		return ""
	case *types.Map:
		ks, vs := s.sortOf(u.Key()), s.sortOf(u.Elem())
		return "(<= 0 " + s.mapPart(ks, vs, "msize", x) + ")"
	case *types.Struct:
		var fs []string
		srt := s.sortOf(t)
		for i := 0; i < u.NumFields(); i++ {
			if f := s.rangeFact(u.Field(i).Type(), "("+fieldAcc(srt, u, i)+" "+x+")"); f != "" {
				fs = append(fs, f)
			}
		}
		if len(fs) == 0 {
			return ""
		}
		return "(and " + strings.Join(fs, " ") + ")"
	}
	return ""
}

func isByteLike(t types.Type) bool {
	switch u := types.Unalias(t).Underlying().(type) {
	case *types.Basic:
		if w, _, ok := intWidth(u); ok && w <= 8 {
			return true
		}
		return u.Info()&types.IsBoolean != 0
	case *types.Array:
		return isByteLike(u.Elem())
	}
	return false
}

// heapWellTyped: every object in heap h (field type t) holds well-typed values.
func (s *Sess) heapWellTyped(h string, t types.Type) string {
	s.nq++
	q := fmt.Sprintf("wr%d", s.nq)
	if f := s.rangeFact(t, "(select "+h+" "+q+")"); f != "" {
		return "(forall ((" + q + " Int)) (! " + f + " :pattern ((select " + h + " " + q + "))))"
	}
	return ""
}

func (s *Sess) assumeRange(t types.Type, x string) {
	if f := s.rangeFact(t, x); f != "" {
		s.assert(f)
	}
}

func (s *Sess) typeID(t types.Type) int {
	k := types.TypeString(t, nil)
	if id, ok := s.typeIDs[k]; ok {
		return id
	}
	id := len(s.typeIDs) + 1
	s.typeIDs[k] = id
	if s.typeObjs == nil {
		s.typeObjs = map[int]types.Type{}
	}
	s.typeObjs[id] = t
	// which of the interfaces asked about so far this (concrete) dynamic type implements: facts of Go's type system
	for _, iid := range sortedIntKeys(s.ifaceFns) {
		s.implFact(iid, id)
	}
	return id
}

// implementsFn declares implements_<k>(dynamic type id) for the interface type at and states it for every dynamic
// type known to the session (and, through typeID, for every one that appears later).
func (s *Sess) implementsFn(at types.Type) string {
	iid := s.typeID(at)
	fn := fmt.Sprintf("implements_%d", iid)
	if s.ifaceFns == nil {
		s.ifaceFns = map[int]*types.Interface{}
	}
	if _, ok := s.ifaceFns[iid]; !ok {
		ifc, _ := types.Unalias(at).Underlying().(*types.Interface)
		s.declFun(fn, []string{"Int"}, "Bool")
		s.ifaceFns[iid] = ifc
		for _, tid := range sortedIntKeys(s.typeObjs) {
			s.implFact(iid, tid)
		}
	}
	return fn
}

func (s *Sess) implFact(iid, tid int) {
	ifc, t := s.ifaceFns[iid], s.typeObjs[tid]
	if ifc == nil || t == nil {
		return
	}
	if _, isIface := types.Unalias(t).Underlying().(*types.Interface); isIface {
		return
	}
	v := "false"
	if types.Implements(t, ifc) {
		v = "true"
	}
	s.axioms = append(s.axioms, fmt.Sprintf("(assert (= (implements_%d %d) %s))", iid, tid, v))
}

func sortedIntKeys[V any](m map[int]V) []int {
	var ks []int
	for k := range m {
		ks = append(ks, k)
	}
	sort.Ints(ks)
	return ks
}

func and(xs ...string) string {
	var ys []string
	for _, x := range xs {
		if x == "true" || x == "" {
			continue
		}
		if x == "false" {
			return "false"
		}
		ys = append(ys, x)
	}
	switch len(ys) {
	case 0:
		return "true"
	case 1:
		return ys[0]
	}
	return "(and " + strings.Join(ys, " ") + ")"
}

func or(xs ...string) string {
	var ys []string
	for _, x := range xs {
		if x == "false" || x == "" {
			continue
		}
		if x == "true" {
			return "true"
		}
		ys = append(ys, x)
	}
	switch len(ys) {
	case 0:
		return "false"
	case 1:
		return ys[0]
	}
	return "(or " + strings.Join(ys, " ") + ")"
}

func not(x string) string {
	switch x {
	case "true":
		return "false"
	case "false":
		return "true"
	}
	return "(not " + x + ")"
}

func implies(a, b string) string {
	if a == "true" {
		return b
	}
	if b == "true" {
		return "true"
	}
	return "(=> " + a + " " + b + ")"
}

func ite(c, a, b string) string {
	if c == "true" {
		return a
	}
	if c == "false" {
		return b
	}
	if a == b {
		return a
	}
	return "(ite " + c + " " + a + " " + b + ")"
}

func sortedKeys[V any](m map[string]V) []string {
	ks := make([]string, 0, len(m))
	for k := range m {
		ks = append(ks, k)
	}
	sort.Strings(ks)
	return ks
}

// ---------------------------------------------------------------- Go arrays
//
// Small Go arrays ([N]T with N <= 128: roots, pubkeys, signatures, versions,
// domains) are SMT datatypes with N fields: equality is structural (no
// extensionality, no out-of-range garbage), constant indices are accessors,
// symbolic indices are ite-chains.  Larger arrays stay SMT arrays.

const smallArrMax = 128

func smallArr(u *types.Array) bool { return u.Len() <= smallArrMax }

func (s *Sess) arrSort(u *types.Array) string {
	es := s.sortOf(u.Elem())
	if !smallArr(u) {
		return "(Array Int " + es + ")"
	}
	sn := fmt.Sprintf("Arr%d_%s", u.Len(), sortID(es))
	if !s.sortSeen[sn] {
		s.sortSeen[sn] = true
		var fs []string
		for i := int64(0); i < u.Len(); i++ {
			fs = append(fs, fmt.Sprintf("(e%d_%s %s)", i, sn, es))
		}
		s.sortDecl = append(s.sortDecl, fmt.Sprintf("(declare-datatypes ((%s 0)) (((mk_%s %s))))", sn, sn, strings.Join(fs, " ")))
	}
	return sn
}

// arrSelect reads element i of Go array value x.
func (s *Sess) arrSelect(u *types.Array, x, i string) string {
	if !smallArr(u) {
		return "(select " + x + " " + i + ")"
	}
	sn := s.arrSort(u)
	if c, ok := isConstTerm(i); ok && c.IsInt64() && c.Int64() >= 0 && c.Int64() < u.Len() {
		if els := s.arrElems(u, x); els != nil {
			return els[c.Int64()]
		}
		return fmt.Sprintf("(e%d_%s %s)", c.Int64(), sn, x)
	}
	if u.Len() == 0 {
		return s.zero(u.Elem())
	}
	// symbolic index: an uninterpreted accessor (a matchable term for quantifier triggers)
	// defined by one axiom as the ite-chain over the N fields
	get := "get_" + sn
	if !s.funSeen[get] {
		s.funSeen[get] = true
		es := s.sortOf(u.Elem())
		s.funDecl = append(s.funDecl, fmt.Sprintf("(declare-fun %s (%s Int) %s)", get, sn, es))
		t := fmt.Sprintf("(e%d_%s ax)", u.Len()-1, sn)
		for k := u.Len() - 2; k >= 0; k-- {
			t = fmt.Sprintf("(ite (= ai %d) (e%d_%s ax) %s)", k, k, sn, t)
		}
		s.axioms = append(s.axioms, fmt.Sprintf("(assert (forall ((ax %s) (ai Int)) (! (= (%s ax ai) %s) :pattern ((%s ax ai)))))", sn, get, t, get))
	}
	return "(" + get + " " + x + " " + i + ")"
}

// arrStore returns x with element i replaced by v.
func (s *Sess) arrStore(u *types.Array, x, i, v string) string {
	if !smallArr(u) {
		return "(store " + x + " " + i + " " + v + ")"
	}
	sn := s.arrSort(u)
	c, isC := isConstTerm(i)
	known := s.arrElems(u, x)
	var fs []string
	for k := int64(0); k < u.Len(); k++ {
		cur := fmt.Sprintf("(e%d_%s %s)", k, sn, x)
		if known != nil {
			cur = known[k]
		}
		switch {
		case isC && c.IsInt64() && c.Int64() == k:
			fs = append(fs, v)
		case isC:
			fs = append(fs, cur)
		default:
			fs = append(fs, fmt.Sprintf("(ite (= %s %d) %s %s)", i, k, v, cur))
		}
	}
	return "(mk_" + sn + " " + strings.Join(fs, " ") + ")"
}

// arrToSMT converts a Go array value to an SMT (Array Int E) holding its elements at 0..N-1.
func (s *Sess) arrToSMT(u *types.Array, x string) string {
	if !smallArr(u) {
		return x
	}
	es := s.sortOf(u.Elem())
	sn := s.arrSort(u)
	t := "((as const (Array Int " + es + ")) " + s.zero(u.Elem()) + ")"
	for k := int64(0); k < u.Len(); k++ {
		t = fmt.Sprintf("(store %s %d (e%d_%s %s))", t, k, k, sn, x)
	}
	return t
}

// arrFromSMT builds a Go array value from the elements 0..N-1 of an SMT array.
func (s *Sess) arrFromSMT(u *types.Array, a string) string {
	if !smallArr(u) {
		return a
	}
	sn := s.arrSort(u)
	var fs []string
	for k := int64(0); k < u.Len(); k++ {
		fs = append(fs, fmt.Sprintf("(select %s %d)", a, k))
	}
	if len(fs) == 0 {
		return "mk_" + sn
	}
	return "(mk_" + sn + " " + strings.Join(fs, " ") + ")"
}
